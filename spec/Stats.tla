-------------------------------- MODULE Stats --------------------------------
(***************************************************************************)
(* Page statistics (C12).  A page is a sequence of entries, each null      *)
(* (-1), NaN (-2) or the rank (>= 0) of a value in the column type's order. *)
(* The accumulator is structured like the generated stats types: updated   *)
(* once per entry on Add, serialised into the page header on Write.        *)
(* SentinelBug models an in-band "no value seen yet" marker (the string    *)
(* stats use the string "__#NIL#__" for that): a value equal to the marker  *)
(* is taken for "nothing seen".                                            *)
(***************************************************************************)
EXTENDS Integers, Sequences, FiniteSets, SequencesExt, TLC

\* ---- the property, over an observed page (used by the trace spec too)
NonNull(page) == SelectSeq(page, LAMBDA e : e # -1)
Ordered(page) == SelectSeq(page, LAMBDA e : e >= 0)
NullCountExact(page, st) == st.hasnull => st.nullcount = Len(page) - Len(NonNull(page))
MinMaxSound(page, st) ==
  /\ st.hasmin => \A i \in 1..Len(Ordered(page)) : st.min <= Ordered(page)[i]
  /\ st.hasmax => \A i \in 1..Len(Ordered(page)) : Ordered(page)[i] <= st.max
AbsentWhenEmpty(page, st) == NonNull(page) = <<>> => (~st.hasmin /\ ~st.hasmax)

\* ---- the accumulator
Marker == 1   \* rank of the in-band marker value (only meaningful with SentinelBug)
EmptyAcc == [seen |-> FALSE, min |-> 0, max |-> 0, nulls |-> 0]
AddEntry(acc, e, sentinelBug) ==
  IF e = -1 THEN [acc EXCEPT !.nulls = @ + 1]
  ELSE IF e = -2 THEN [acc EXCEPT !.seen = TRUE]          \* NaN: compares false with everything
  ELSE LET unseen == IF sentinelBug THEN (~acc.seen \/ acc.min = Marker) ELSE ~acc.seen
           unseenMax == IF sentinelBug THEN (~acc.seen \/ acc.max = Marker) ELSE ~acc.seen IN
       [acc EXCEPT !.seen = TRUE,
                   !.min = IF unseen \/ e < acc.min THEN e ELSE acc.min,
                   !.max = IF unseenMax \/ e > acc.max THEN e ELSE acc.max]
Header(acc, page) ==
  [hasnull |-> TRUE, nullcount |-> acc.nulls,
   hasmin |-> \E i \in 1..Len(page) : page[i] >= 0, hasmax |-> \E i \in 1..Len(page) : page[i] >= 0,
   min |-> acc.min, max |-> acc.max]
=============================================================================
