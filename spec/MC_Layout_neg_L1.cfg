CONSTANTS MaxPage = 2 NCols = 2 MaxOps = 7
  FaultAt = {}
  EmptyWriteEmitsPages = TRUE FooterSkipsDroppedBytes = TRUE FooterCountsAddedRows = FALSE SwallowSinkError = FALSE
SPECIFICATION Spec
INVARIANTS FooterTruthful
CHECK_DEADLOCK FALSE
