------------------------------ MODULE ExportBits ------------------------------
(* Case export for C07 / C17: (a) bit-packing vectors with the values the   *)
(* specification operators give (used to cross-check the Go mirror), (b)    *)
(* every legal segmentation of every level sequence up to MaxLen.           *)
EXTENDS Hybrid, Json
CONSTANTS OutFile, Mode, W, MaxLen, Support

Sparse(n, max, s) ==
  UNION {{[i \in 1..n |-> IF i \in S THEN f[i] ELSE 0] : f \in [S -> 1..max]} :
           S \in {T \in SUBSET (1..n) : Cardinality(T) <= s}}

Vectors == UNION {{[w |-> x, vals |-> v, bytes |-> Pack(v, x)] : v \in Sparse(8, Pow2(x) - 1, Support)} : x \in 1..4}
           \cup UNION {{[w |-> x, vals |-> Unpack(b, x), bytes |-> b] : b \in Sparse(x, 255, 1)} : x \in 1..4}

Levels == UNION {[1..n -> 0..(Pow2(W) - 1)] : n \in 1..MaxLen}
SegCases == UNION {{[w |-> W, levels |-> lv, segs |-> s] : s \in Segmentations(lv)} : lv \in Levels}

ASSUME IF Mode = "vectors"
       THEN ndJsonSerialize(OutFile, << [vectors |-> SetToSeq(Vectors)] >>)
       ELSE ndJsonSerialize(OutFile, << [cases |-> SetToSeq(SegCases)] >>)
=============================================================================
