------------------------------ MODULE Assembly ------------------------------
(***************************************************************************)
(* The record assembly of the GENERATED reader, as an operational model.    *)
(*                                                                         *)
(* Dremel!Assemble is the text-book inverse of striping: it cuts the       *)
(* entries of all columns below a node into pieces and recurses.  The      *)
(* generated code does something else: Scan() handles ONE COLUMN AT A TIME *)
(* (writeX functions), and each column function walks its entries of the   *)
(* current record while maintaining a vector of list indices               *)
(*                                                                         *)
(*     ind.rep(rep):  if rep > 0 { ind[rep-1]++ ; ind[rep..] = 0 }         *)
(*                                                                         *)
(* and, per entry, creates whatever part of the path the definition level  *)
(* says exists and is not there yet (append to the list at the level that  *)
(* repeats, allocate an optional struct, set the leaf).  This module is    *)
(* that algorithm - what a correct fields.Init / dremel template has to    *)
(* emit for every shape - with the slips that were observed in the         *)
(* generator (known findings) or planted into it (seeded changes) as named *)
(* deviation switches.                                                      *)
(*                                                                         *)
(* One step of the model = one entry consumed by one column function.      *)
(***************************************************************************)
EXTENDS Dremel

CONSTANTS ZeroOnlyNextLevel,   \* ind.rep clears only ind[rep], not every deeper index (seeded change S75)
          FreshSliceOnValue    \* a list element that carries a value is assigned as a fresh one-element list instead of
                               \* being appended (what parquetgen emits for e.g. Rec{G []struct{F *float32}}: known finding)

\* ---------------------------------------------------------------- skeleton of an empty record
RECURSIVE SkelBase(_), SkelNode(_)
SkelBase(n) == IF IsLeaf(n) THEN -1 ELSE [i \in 1..Len(n.kids) |-> SkelNode(n.kids[i])]
SkelNode(n) == IF n.rep = "req" THEN SkelBase(n) ELSE <<>>
SkelRecord(kids) == [i \in 1..Len(kids) |-> SkelNode(kids[i])]

\* ---------------------------------------------------------------- the index vector
RepStep(ind, rep) ==
  IF rep = 0 THEN ind
  ELSE [k \in 1..Len(ind) |->
          IF k = rep THEN ind[k] + 1
          ELSE IF k > rep THEN (IF ZeroOnlyNextLevel /\ k > rep + 1 THEN ind[k] ELSE 0)
          ELSE ind[k]]

\* ---------------------------------------------------------------- placing one entry
\* returns [v |-> the updated value, ok |-> FALSE if the entry addresses a list element that cannot exist yet]
\*   d  : defined non-required ancestors so far, rd : repeated ancestors so far
RECURSIVE PlaceNode(_, _, _, _, _, _, _, _), PlaceBase(_, _, _, _, _, _, _, _)
PlaceBase(chain, path, b, ind, def, tok, d, rd) ==
  IF Len(chain) = 1
  THEN [v |-> IF tok >= 0 THEN tok ELSE b, ok |-> TRUE]
  ELSE LET r == PlaceNode(Tail(chain), Tail(path), b[path[2]], ind, def, tok, d, rd)
       IN [v |-> [b EXCEPT ![path[2]] = r.v], ok |-> r.ok]
PlaceNode(chain, path, v, ind, def, tok, d, rd) ==
  LET n == Head(chain) IN
  CASE n.rep = "req" -> PlaceBase(chain, path, v, ind, def, tok, d, rd)
    [] n.rep = "opt" ->
         IF def <= d THEN [v |-> v, ok |-> TRUE]
         ELSE LET b0 == IF v = <<>> THEN SkelBase(n) ELSE v[1]
                  r  == PlaceBase(chain, path, b0, ind, def, tok, d + 1, rd)
              IN [v |-> <<r.v>>, ok |-> r.ok]
    [] n.rep = "rep" ->
         IF def <= d THEN [v |-> v, ok |-> TRUE]
         ELSE LET i == ind[rd + 1] + 1 IN
              IF i > Len(v) + 1 THEN [v |-> v, ok |-> FALSE]
              ELSE LET new == i = Len(v) + 1
                       b0  == IF new THEN SkelBase(n) ELSE v[i]
                       r   == PlaceBase(chain, path, b0, ind, def, tok, d + 1, rd + 1)
                   IN IF FreshSliceOnValue /\ tok >= 0 /\ MaxRepOf(chain) = 1   \* the innermost list of this column
                      THEN [v |-> <<r.v>>, ok |-> r.ok]
                      ELSE [v |-> IF new THEN Append(v, r.v) ELSE [v EXCEPT ![i] = r.v], ok |-> r.ok]

Place(kids, path, rec, ind, e) ==
  LET r == PlaceNode(ChainOf(kids, path), path, rec[path[1]], ind, e[2], e[3], 0, 0)
  IN [v |-> [rec EXCEPT ![path[1]] = r.v], ok |-> r.ok]

\* ---------------------------------------------------------------- the state machine
VARIABLES shape,   \* the schema
          want,    \* the record that was striped (every leaf slot has its own token)
          col,     \* index of the column function that is running (1..number of leaves), NCols+1 when Scan is done
          pos,     \* next entry of that column
          ind,     \* its index vector
          out,     \* the record under construction
          ok       \* no entry addressed an impossible list position so far
vars == <<shape, want, col, pos, ind, out, ok>>

NCols == Len(LeafPaths(shape))
Path(c) == LeafPaths(shape)[c]
Entries(c) == Stripe(shape, Path(c), want)
Zeros(c) == [k \in 1..MaxRepOf(ChainOf(shape, Path(c))) |-> 0]

InitWith(S, L) ==
  /\ shape \in S
  /\ \E r \in Records(shape, L) : want = RenumberRecord(shape, r)
  /\ col = 1 /\ pos = 1
  /\ ind = Zeros(1)
  /\ out = SkelRecord(shape)
  /\ ok = TRUE

\* one entry of the running column function
Consume ==
  /\ col <= NCols /\ pos <= Len(Entries(col))
  /\ LET e  == Entries(col)[pos]
         i2 == RepStep(ind, e[1])
         r  == Place(shape, Path(col), out, i2, e)
     IN /\ ind' = i2
        /\ out' = r.v
        /\ ok' = (ok /\ r.ok)
  /\ pos' = pos + 1
  /\ UNCHANGED <<shape, want, col>>

\* the column function returns, Scan calls the next one
NextColumn ==
  /\ col <= NCols /\ pos > Len(Entries(col))
  /\ col' = col + 1 /\ pos' = 1
  /\ ind' = IF col + 1 <= NCols THEN Zeros(col + 1) ELSE <<>>
  /\ UNCHANGED <<shape, want, out, ok>>

Next == Consume \/ NextColumn

Done == col = NCols + 1

\* ---------------------------------------------------------------- properties
\* Scan returns the record that was written
AssemblyRoundTrip == Done => out = want
\* no column function ever indexes past the end of a list (the generated code would panic)
NoImpossibleIndex == ok
\* while a column runs, every index points at an existing element or at the one just being appended
IndexVectorSane == col <= NCols => \A k \in 1..Len(ind) : ind[k] >= 0
=============================================================================
