------------------------------ MODULE PoolProps ------------------------------
(* C13 as a predicate over observed outputs: o[i] is the sequence of things  *)
(* instance i handed to its sink, each tagged [owner, epoch].  Every page an *)
(* instance hands to its sink carries that instance's own content of that   *)
(* page write: the output is a function of the instance's own history alone. *)
(* Used by the model (Pool.tla: tags written by the specification's actions) *)
(* and by the trace specification (TraceW: owner = i iff the bytes of the    *)
(* k-th sink call equal those of the instance's solo run).                   *)
EXTENDS Integers, Sequences, FiniteSets, TLC
NonInterferenceOn(o) == \A i \in DOMAIN o : \A k \in 1..Len(o[i]) : o[i][k] = [owner |-> i, epoch |-> k]
=============================================================================
