-------------------------------- MODULE Hybrid --------------------------------
(***************************************************************************)
(* RLE / bit-packed hybrid level streams (C07).                            *)
(*                                                                         *)
(* 1. Stream grammar and reference decoder: what the Parquet specification *)
(*    says (normative).                                                    *)
(* 2. Segmentations: the legal ways a foreign writer may cut a level       *)
(*    sequence into runs (normative; the case generator for the decoder).  *)
(* 3. The library's encoder as a state machine, structured like rle.go     *)
(*    (diagnostic: model-checked as a design, never used to reject a       *)
(*    stream that is well-formed and decodes to the input).                *)
(***************************************************************************)
EXTENDS Bitpack, FiniteSets, TLC

\* ---------------------------------------------------------------- 1. grammar / reference decoder
RECURSIVE LEB(_)
LEB(n) == IF n < 128 THEN <<n>> ELSE <<(n % 128) + 128>> \o LEB(n \div 128)

\* <<value, next position>> or <<-1, 0>> when the header is truncated
RECURSIVE ReadLEB(_, _, _, _)
ReadLEB(bs, pos, shift, acc) ==
  IF pos > Len(bs) \/ shift > 28 THEN <<-1, 0>>     \* truncated, or longer than the 5 bytes a 32-bit header can take (writers that back-patch a fixed slot emit those)
  ELSE LET b == bs[pos] IN
       \* the fifth byte may only carry the bits 28..30 (a header beyond 2^31 describes no page; it would also overflow TLC's integers)
       IF shift = 28 /\ (b % 128) >= 8 THEN <<-1, 0>>
       ELSE IF b < 128 THEN <<acc + b * Pow2(shift), pos + 1>>
       ELSE ReadLEB(bs, pos + 1, shift + 7, acc + (b - 128) * Pow2(shift))

RECURSIVE UnpackGroups(_, _, _, _)
UnpackGroups(bs, pos, g, w) ==
  IF g = 0 THEN <<>> ELSE Unpack(SubSeq(bs, pos, pos + w - 1), w) \o UnpackGroups(bs, pos + w, g - 1, w)

Bad == [ok |-> FALSE, vals |-> <<>>, nruns |-> 0]

\* the runs of a stream body (without the 4-byte length prefix)
RECURSIVE DecodeRuns(_, _, _)
DecodeRuns(bs, pos, w) ==
  IF pos > Len(bs) THEN [ok |-> TRUE, vals |-> <<>>, nruns |-> 0]
  ELSE LET h == ReadLEB(bs, pos, 0, 0) IN
    IF h[1] < 0 THEN Bad
    ELSE IF h[1] % 2 = 0 THEN
         \* RLE run: value in one byte (widths 1..8), in range.  The grammar (rle-header = varint(rle-run-len << 1)) does
         \* not exclude a run of length 0: it stands for no value at all (parquet-mr reads it that way)
         LET cnt == h[1] \div 2 IN
         IF h[2] > Len(bs) THEN Bad
         ELSE IF bs[h[2]] >= Pow2(w) THEN Bad
         ELSE LET rest == DecodeRuns(bs, h[2] + 1, w) IN
              [ok |-> rest.ok, vals |-> [i \in 1..cnt |-> bs[h[2]]] \o rest.vals, nruns |-> rest.nruns + 1]
    ELSE \* bit-packed run: groups >= 1, exactly groups * w payload bytes
         LET g == h[1] \div 2 IN
         IF g < 1 \/ h[2] + g * w - 1 > Len(bs) THEN Bad
         ELSE LET rest == DecodeRuns(bs, h[2] + g * w, w) IN
              [ok |-> rest.ok, vals |-> UnpackGroups(bs, h[2], g, w) \o rest.vals, nruns |-> rest.nruns + 1]

LE32(n) == <<n % 256, (n \div 256) % 256, (n \div 65536) % 256, n \div 16777216>>
Prefix(stream) == stream[1] + 256 * stream[2] + 65536 * stream[3] + 16777216 * stream[4]

\* a complete stream: exact length prefix, then runs and nothing else
Decode(stream, w) ==
  IF Len(stream) < 4 THEN Bad
  ELSE IF Prefix(stream) # Len(stream) - 4 THEN Bad
  ELSE DecodeRuns(SubSeq(stream, 5, Len(stream)), 1, w)

ConsumedBytes(stream) == 4 + Prefix(stream)

IsZeroPadOf(vals, levels) ==
  /\ Len(vals) >= Len(levels) /\ Len(vals) - Len(levels) < 8
  /\ SubSeq(vals, 1, Len(levels)) = levels
\* C07, encoder side: well formed, decodes to the input plus fewer than 8 padding values
EncodesTo(stream, levels, w) ==
  LET d == Decode(stream, w) IN d.ok /\ IsZeroPadOf(d.vals, levels)

\* ---------------------------------------------------------------- 2. legal segmentations
\* a segment: [rle |-> BOOLEAN, n |-> number of level entries it covers]
\* RLE over a constant stretch of any length >= 1; bit-packed of any length,
\* a multiple of 8 unless it is the last segment
RECURSIVE SegsFrom(_, _)
SegsFrom(levels, pos) ==
  IF pos > Len(levels) THEN {<<>>}
  ELSE LET rem == Len(levels) - pos + 1
           constLen == CHOOSE m \in 1..rem :
                          /\ \A j \in 0..(m - 1) : levels[pos + j] = levels[pos]
                          /\ (m = rem \/ levels[pos + m] # levels[pos])
           rleSegs == UNION {{<<[rle |-> TRUE, n |-> m]>> \o s : s \in SegsFrom(levels, pos + m)} : m \in 1..constLen}
           bpLens  == {m \in 1..rem : m % 8 = 0 \/ m = rem}
           bpSegs  == UNION {{<<[rle |-> FALSE, n |-> m]>> \o s : s \in SegsFrom(levels, pos + m)} : m \in bpLens}
       IN rleSegs \cup bpSegs
Segmentations(levels) == SegsFrom(levels, 1)

\* the bytes of a segmentation (final bit-packed group padded with pad)
RECURSIVE PackGroups(_, _)
PackGroups(vals, w) == IF vals = <<>> THEN <<>> ELSE Pack(SubSeq(vals, 1, 8), w) \o PackGroups(SubSeq(vals, 9, Len(vals)), w)
RECURSIVE EncodeSegs(_, _, _, _, _)
EncodeSegs(levels, pos, segs, w, pad) ==
  IF segs = <<>> THEN <<>>
  ELSE LET s == Head(segs) IN
       IF s.rle THEN LEB(2 * s.n) \o <<levels[pos]>> \o EncodeSegs(levels, pos + s.n, Tail(segs), w, pad)
       ELSE LET g == (s.n + 7) \div 8
                vals == SubSeq(levels, pos, pos + s.n - 1) \o [i \in 1..(8 * g - s.n) |-> pad]
            IN LEB(2 * g + 1) \o PackGroups(vals, w) \o EncodeSegs(levels, pos + s.n, Tail(segs), w, pad)
ForeignStream(levels, segs, w, pad) ==
  LET body == EncodeSegs(levels, 1, segs, w, pad) IN LE32(Len(body)) \o body

\* every foreign stream is well formed and decodes to the levels (plus padding)
ForeignOK(levels, segs, w, pad) ==
  LET d == Decode(ForeignStream(levels, segs, w, pad), w) IN
  d.ok /\ Len(d.vals) >= Len(levels) /\ SubSeq(d.vals, 1, Len(levels)) = levels

\* ---------------------------------------------------------------- 3. the library's encoder (rle.go)
\* prev, buf (valBuf[:bufCount]), rc (repeatCount), gc (groupCount), hp (headerPointer, 0 = none), out
EncInit == [prev |-> 0, buf |-> <<>>, rc |-> 0, gc |-> 0, hp |-> 0, out |-> <<>>]

\* endPreviousBitPackedRun: back-patch the header byte reserved at hp
EndPrev(s) == IF s.hp = 0 THEN s
              ELSE [s EXCEPT !.out = [s.out EXCEPT ![s.hp] = 2 * s.gc + 1], !.hp = 0, !.gc = 0]
\* writeRLERun
WriteRLERun(s) == LET t == EndPrev(s) IN
  [t EXCEPT !.out = t.out \o LEB(2 * t.rc) \o <<t.prev>>, !.rc = 0, !.buf = <<>>]
\* writeOrAppendBitPackedRun: close the run at GroupCap groups, reserve a header byte, pack
PackGroupG(s, w, cap) ==
  LET t == IF s.gc >= cap THEN EndPrev(s) ELSE s
      u == IF t.hp = 0 THEN [t EXCEPT !.out = Append(t.out, 0), !.hp = Len(t.out) + 1] ELSE t
  IN [u EXCEPT !.out = u.out \o Pack(u.buf, w), !.buf = <<>>, !.rc = 0, !.gc = u.gc + 1]
\* RLE.Write
StepG(s, v, w, cap) ==
  IF v = s.prev /\ s.rc + 1 >= 8 THEN [s EXCEPT !.rc = s.rc + 1]
  ELSE LET t == IF v = s.prev THEN [s EXCEPT !.rc = s.rc + 1]
                ELSE LET f == IF s.rc >= 8 THEN WriteRLERun(s) ELSE s IN [f EXCEPT !.rc = 1, !.prev = v]
           u == [t EXCEPT !.buf = Append(t.buf, v)]
       IN IF Len(u.buf) = 8 THEN PackGroupG(u, w, cap) ELSE u
\* RLE.Bytes
FinalizeG(s, w, cap) ==
  LET t == IF s.rc >= 8 THEN WriteRLERun(s)
           ELSE IF Len(s.buf) > 0
                THEN EndPrev(PackGroupG([s EXCEPT !.buf = s.buf \o [i \in 1..(8 - Len(s.buf)) |-> 0]], w, cap))
                ELSE EndPrev(s)
  IN LE32(Len(t.out)) \o t.out

GroupCap == 63        \* a bit-packed header is one byte: at most 63 groups per run
Step(s, v, w) == StepG(s, v, w, GroupCap)
Finalize(s, w) == FinalizeG(s, w, GroupCap)
StepN(s, v, n, w) == FoldLeft(LAMBDA acc, i : Step(acc, v, w), s, [i \in 1..n |-> i])
EncodeAll(levels, w) == Finalize(FoldLeft(LAMBDA acc, i : Step(acc, levels[i], w), EncInit, [i \in 1..Len(levels) |-> i]), w)
=============================================================================
