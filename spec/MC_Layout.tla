----------------------------- MODULE MC_Layout -----------------------------
EXTENDS Layout
\* histories are bounded by MaxOps; nothing else grows
=============================================================================
