---------------------------- MODULE ExportShapes ----------------------------
(* Case export: every schema (structure only) of the bounded grammar with   *)
(* at most MaxNodes nodes, depth <= MaxDepth, <= MaxKids children per group. *)
EXTENDS Dremel, Json
CONSTANTS OutFile, MaxNodes, MaxDepth, MaxKids
S == Shapes(MaxNodes, MaxDepth, MaxKids)
ASSUME ndJsonSerialize(OutFile, << [count |-> Cardinality(S), shapes |-> SetToSeq(S)] >>)
=============================================================================
