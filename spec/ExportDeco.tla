------------------------------ MODULE ExportDeco ------------------------------
(* Case export for C14: for every base schema in SchemaFile, every site for  *)
(* an excluded field (struct path, position) and every run of fields that   *)
(* can be replaced by an embedded struct (struct path, start, length).       *)
EXTENDS Dremel, Json
CONSTANTS SchemaFile, OutFile
Schemas == ndJsonDeserialize(SchemaFile)
ASSUME ndJsonSerialize(OutFile,
  [i \in 1..Len(Schemas) |->
     LET k == Schemas[i].schema IN
     [id |-> Schemas[i].id,
      excl |-> SetToSeq(ExclSites(k)),
      embed |-> SetToSeq({t \in EmbedSites(k) : t[2] + t[3] - 1 <= Len(KidsAt(k, t[1]))})]])
=============================================================================
