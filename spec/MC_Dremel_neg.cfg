CONSTANTS MaxNodes = 3 MaxDepth = 3 MaxKids = 3 MaxList = 2
SPECIFICATION Spec
INVARIANTS BrokenInv
CHECK_DEADLOCK FALSE
