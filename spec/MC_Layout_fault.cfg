CONSTANTS MaxPage = 2 NCols = 2 MaxOps = 5
  FaultAt = {1,2,3,4,5,6,7,8,9,10,11,12,13,14,15,16,17,18,19,20,21,22,23,24}
  EmptyWriteEmitsPages = FALSE FooterSkipsDroppedBytes = FALSE FooterCountsAddedRows = FALSE SwallowSinkError = FALSE
SPECIFICATION Spec
INVARIANTS TypeOK FaultReported
CHECK_DEADLOCK FALSE
