------------------------------- MODULE Layout -------------------------------
(***************************************************************************)
(* The writer: Add / Write / Close histories, pages, row groups and the    *)
(* footer accounting of parsyl/parquet (ParquetWriter + Metadata).         *)
(*                                                                         *)
(* Structured like the code:                                               *)
(*   chain   - the linked list of page writers (`child`): records per page *)
(*   docs, rgDocs - Metadata.docs / rowGroupDocs                           *)
(*   rgs     - Metadata.rowGroups: rows and per-column chunk accounting    *)
(*   sink    - what reached the io.Writer, as a sequence of segments       *)
(*   calls   - number of sink Write calls made so far                      *)
(* One action per API call.  Every API call performs a known list of sink  *)
(* writes; the environment may make the k-th one fail (faultAt), in which  *)
(* case only a prefix reaches the sink and the call must report an error.  *)
(*                                                                         *)
(* Deviation switches (CONSTANTS) name behaviours the code has or had;     *)
(* with all of them FALSE the specification satisfies the properties.      *)
(***************************************************************************)
EXTENDS LayoutProps

CONSTANTS MaxPage,                   \* configured records per page
          NCols,                     \* number of leaf columns
          MaxOps,                    \* bound on Add + Write calls (model checking only)
          FaultAt,                   \* set of sink-call indices that may fail ({} = reliable sink)
          EmptyWriteEmitsPages,      \* L1a: Write with nothing pending still emits one zero-value page per column
          FooterSkipsDroppedBytes,   \* L1b: footer offsets ignore the bytes of row groups it drops
          FooterCountsAddedRows,     \* L2 : footer num_rows = number of Adds, written or not
          SwallowSinkError,          \* a failed sink write is not reported by the API call
          ChildPagesHoldOneMore      \* the record that opens a child page is not counted against its capacity (seeded change S56)

VARIABLES chain, pending, docs, rgDocs, rgs, sink, calls, wcount, ops, state, lastRes, faultHit, footer, faultAt

vars == <<chain, pending, docs, rgDocs, rgs, sink, calls, wcount, ops, state, lastRes, faultHit, footer, faultAt>>

Cols == 1..NCols

\* abstract byte lengths for model checking: never 0, not constant, differ per column
HdrLen(n)     == 5 + (n % 2)
BodyLen(c, n) == c + 2 * n

EmptyRG == [rows |-> 0, cols |-> [c \in Cols |-> [nvals |-> 0, bytes |-> 0]]]

Init == /\ chain = <<0>> /\ pending = 0 /\ docs = 0 /\ rgDocs = 0 /\ rgs = <<EmptyRG>>
        /\ sink = <<>> /\ calls = 0 /\ wcount = 0 /\ ops = 0
        /\ state = "fresh" /\ lastRes = "none" /\ faultHit = FALSE /\ footer = <<>>
        /\ faultAt \in FaultAt \cup {0}

\* ---- performing the sink writes of one API call
\* segs: the segments the call wants to write, each one sink Write call.
\* Returns <<segments that reached the sink, fault hit?>>
Delivered(segs) ==
  LET k == faultAt - calls IN        \* index within segs of the failing write
  IF faultAt > 0 /\ k >= 1 /\ k <= Len(segs)
  THEN <<SubSeq(segs, 1, k - 1), TRUE>>
  ELSE <<segs, FALSE>>

Result(hit) == IF hit /\ ~SwallowSinkError THEN "err" ELSE "ok"

\* the code stops at the first failing write; with SwallowSinkError it carries on
SinkAfter(segs) ==
  LET d == Delivered(segs) IN
  IF d[2] /\ SwallowSinkError
  THEN sink \o d[1] \o SubSeq(segs, Len(d[1]) + 2, Len(segs))   \* the failed write is lost, the rest goes on
  ELSE sink \o d[1]
CallsAfter(segs) ==
  LET d == Delivered(segs) IN
  IF d[2] /\ ~SwallowSinkError THEN calls + Len(d[1]) + 1 ELSE calls + Len(segs)

\* ---- NewParquetWriter: writes the magic
New == /\ state = "fresh"
       /\ LET segs == << Seg("magic", 4, 0, 0, 0, 0, 0) >>
              d == Delivered(segs) IN
          /\ sink' = SinkAfter(segs) /\ calls' = CallsAfter(segs)
          /\ faultHit' = d[2] /\ lastRes' = Result(d[2])
          /\ state' = IF Result(d[2]) = "ok" THEN "open" ELSE "dead"
       /\ UNCHANGED <<chain, pending, docs, rgDocs, rgs, wcount, ops, footer, faultAt>>

\* ---- Add: append to the last page, or open a child page when it is full
Add == /\ state = "open" /\ ops < MaxOps
       /\ chain' = IF chain[Len(chain)] = MaxPage + (IF ChildPagesHoldOneMore /\ Len(chain) > 1 THEN 1 ELSE 0) THEN Append(chain, 1)
                   ELSE [chain EXCEPT ![Len(chain)] = @ + 1]
       /\ pending' = pending + 1 /\ docs' = docs + 1 /\ rgDocs' = rgDocs + 1 /\ ops' = ops + 1
       /\ lastRes' = "ok" /\ faultHit' = FALSE
       /\ UNCHANGED <<rgs, sink, calls, wcount, state, footer, faultAt>>

\* ---- Write: all pages of the chain, column-major (parent page then child
\* pages per column); every page is two sink writes: header then body
PageSegs(w) ==
  FoldLeft(LAMBDA acc, c : acc \o
     FoldLeft(LAMBDA a2, i : a2 \o
        << Seg("hdr",  HdrLen(chain[i]),     w, c, chain[i], chain[i], BodyLen(c, chain[i])),
           Seg("body", BodyLen(c, chain[i]), w, c, chain[i], chain[i], 0) >>,
        <<>>, [i \in 1..Len(chain) |-> i]),
     <<>>, [c \in Cols |-> c])

\* accounting: updateRowGroup runs just before the header write of each page
Accounted(segs) ==   \* pages whose header write was reached
  LET d == Delivered(segs)
      reached == IF d[2] /\ ~SwallowSinkError THEN SubSeq(segs, 1, Len(d[1]) + 1) ELSE segs
  IN SelectSeq(reached, LAMBDA s : s.kind = "hdr")

ChunkOf(acc, c) ==
  LET mine == SelectSeq(acc, LAMBDA s : s.col = c) IN
  [nvals |-> Sum([i \in 1..Len(mine) |-> mine[i].n]),
   bytes |-> Sum([i \in 1..Len(mine) |-> HdrLen(mine[i].n) + BodyLen(c, mine[i].n)])]

Write == /\ state = "open" /\ ops < MaxOps
         /\ ops' = ops + 1 /\ wcount' = wcount + 1
         /\ IF pending = 0 /\ ~EmptyWriteEmitsPages
            THEN /\ UNCHANGED <<sink, calls, rgs, state>>
                 /\ lastRes' = "ok" /\ faultHit' = FALSE
            ELSE LET segs == PageSegs(wcount + 1)
                     d == Delivered(segs)
                     acc == Accounted(segs) IN
                 /\ sink' = SinkAfter(segs) /\ calls' = CallsAfter(segs)
                 /\ faultHit' = d[2] /\ lastRes' = Result(d[2])
                 /\ state' = IF Result(d[2]) = "ok" THEN "open" ELSE "dead"
                 /\ rgs' = LET upd == [rgs EXCEPT ![Len(rgs)] =
                                         [rows |-> rgDocs, cols |-> [c \in Cols |-> ChunkOf(acc, c)]]]
                           IN IF Result(d[2]) = "ok" THEN Append(upd, EmptyRG) ELSE upd
         /\ chain' = <<0>> /\ pending' = 0 /\ rgDocs' = 0
         /\ UNCHANGED <<docs, footer, faultAt>>

\* ---- Close: footer (one sink write), its length (one), the magic (one)
RECURSIVE BuildFooter(_, _, _)
BuildFooter(i, pos, acc) ==
  IF i > Len(rgs) THEN acc
  ELSE LET rg == rgs[i]
           total == Sum([c \in Cols |-> rg.cols[c].bytes]) IN
       IF rg.rows = 0
       THEN BuildFooter(i + 1, IF FooterSkipsDroppedBytes THEN pos ELSE pos + total, acc)
       ELSE BuildFooter(i + 1, pos + total,
              Append(acc, [rows |-> rg.rows, tbs |-> total,
                           cols |-> [c \in Cols |->
                                      LET o == pos + Sum([d \in 1..(c - 1) |-> rg.cols[d].bytes]) IN
                                      [off    |-> o, fo |-> o,
                                       bytes  |-> rg.cols[c].bytes,
                                       ubytes |-> rg.cols[c].bytes,
                                       nvals  |-> rg.cols[c].nvals,
                                       codec  |-> 0]]]))

FooterValue ==
  LET kept == BuildFooter(1, 4, <<>>) IN
  [numRows |-> IF FooterCountsAddedRows THEN docs
               ELSE Sum([i \in 1..Len(kept) |-> kept[i].rows]),
   rgs |-> kept]

Close == /\ state = "open"
         /\ LET segs == << Seg("footer", 7, 0, 0, 0, 0, 0), Seg("flen", 4, 0, 0, 0, 0, 0), Seg("magic", 4, 0, 0, 0, 0, 0) >>
                d == Delivered(segs) IN
            /\ sink' = SinkAfter(segs) /\ calls' = CallsAfter(segs)
            /\ faultHit' = d[2] /\ lastRes' = Result(d[2])
            /\ state' = IF Result(d[2]) = "ok" THEN "closed" ELSE "dead"
            /\ footer' = FooterValue
         /\ UNCHANGED <<chain, pending, docs, rgDocs, rgs, wcount, ops, faultAt>>

Next == New \/ Add \/ Write \/ Close
Spec == Init /\ [][Next]_vars

\* ---------------------------------------------------------------- the properties (definitions in LayoutProps)

FooterTruthful  == state = "closed" => FooterTruthfulOn(sink, footer, NCols, 0)
PagesLegal      == PagesLegalOn(sink, MaxPage)
Framing         == state = "closed" => FramingOn(sink)
EmptyWriteInert == state = "closed" => RowGroupsMatchBatches(sink, footer)
\* C09: the API call during which a sink write failed returns an error
FaultReported   == faultHit => lastRes = "err"

\* structural sanity of the model itself
TypeOK == /\ Len(chain) >= 1 /\ \A i \in 1..Len(chain) : chain[i] \in 0..MaxPage
          /\ pending = Sum(chain) /\ rgDocs = pending
          /\ state \in {"fresh", "open", "closed", "dead"}
=============================================================================
