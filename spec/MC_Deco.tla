------------------------------- MODULE MC_Deco -------------------------------
(* C14 at the level of schemas: inserting an excluded field anywhere, or      *)
(* replacing any run of fields by an embedded struct, does not change the    *)
(* erased schema (hence not the columns, hence - by Stripe - not the file).  *)
EXTENDS Dremel
CONSTANTS MaxNodes, ForgetHoist, TwoSteps
VARIABLES base, deco
vars == <<base, deco>>
\* one decoration step applied to a (possibly already decorated) struct tree
Steps(k) == {InsertExcl(k, s[1], s[2]) : s \in ExclSites(k)}
            \cup {EmbedRun(k, s[1], s[2], s[3]) : s \in {t \in EmbedSites(k) : t[2] + t[3] - 1 <= Len(KidsAt(k, t[1]))}}
\* one or two steps: the second one may land inside the struct introduced by the first (an embedded struct that itself
\* embeds a struct or holds an excluded field), next to it, or anywhere else
Init == /\ base \in Shapes(MaxNodes, 3, 3)
        /\ \/ deco \in Steps(base)
           \/ TwoSteps /\ \E d1 \in Steps(base) : deco \in Steps(d1)
Next == UNCHANGED vars
Spec == Init /\ [][Next]_vars
E(k) == IF ForgetHoist THEN SelectSeq(Erase(k), LAMBDA n : TRUE) \o (IF \E i \in 1..Len(k) : IsEmb(k[i]) THEN << [rep |-> "req", kids |-> <<>>] >> ELSE <<>>) ELSE Erase(k)
ErasedIsBase == E(deco) = base
SameColumns == Len(LeafPaths(E(deco))) = Len(LeafPaths(base))
=============================================================================
