------------------------------- MODULE MC_Deco -------------------------------
(* C14 at the level of schemas: inserting an excluded field anywhere, or      *)
(* replacing any run of fields by an embedded struct, does not change the    *)
(* erased schema (hence not the columns, hence - by Stripe - not the file).  *)
EXTENDS Dremel
CONSTANTS MaxNodes, ForgetHoist
VARIABLES base, deco
vars == <<base, deco>>
Init == /\ base \in Shapes(MaxNodes, 3, 3)
        /\ \/ \E s \in ExclSites(base) : deco = InsertExcl(base, s[1], s[2])
           \/ \E s \in {t \in EmbedSites(base) : t[2] + t[3] - 1 <= Len(KidsAt(base, t[1]))} : deco = EmbedRun(base, s[1], s[2], s[3])
Next == UNCHANGED vars
Spec == Init /\ [][Next]_vars
E(k) == IF ForgetHoist THEN SelectSeq(Erase(k), LAMBDA n : TRUE) \o (IF \E i \in 1..Len(k) : IsEmb(k[i]) THEN << [rep |-> "req", kids |-> <<>>] >> ELSE <<>>) ELSE Erase(k)
ErasedIsBase == E(deco) = base
SameColumns == Len(LeafPaths(E(deco))) = Len(LeafPaths(base))
=============================================================================
