------------------------------ MODULE MC_Hybrid ------------------------------
(* The encoder state machine explored over every level sequence up to      *)
(* MaxLen (one Write per step); in every reachable state the stream that   *)
(* Bytes() would return is well formed and decodes to the input.  With     *)
(* Runs # {} the inputs are instead built from whole runs whose lengths    *)
(* come from the boundary set Runs (8-value groups, the RLE threshold, the *)
(* 63-group cap, multi-byte headers).                                      *)
EXTENDS Hybrid
CONSTANTS W, MaxLen, Runs, MaxRuns, Cap
VARIABLES st, input, nruns
vars == <<st, input, nruns>>

Init == st = EncInit /\ input = <<>> /\ nruns = 0
WriteOne == /\ Runs = {} /\ Len(input) < MaxLen
            /\ \E v \in 0..(Pow2(W) - 1) : st' = StepG(st, v, W, Cap) /\ input' = Append(input, v)
            /\ UNCHANGED nruns
WriteRun == /\ Runs # {} /\ nruns < MaxRuns
            /\ \E v \in 0..(Pow2(W) - 1), n \in Runs :
                 /\ (IF input = <<>> THEN TRUE ELSE input[Len(input)] # v)
                 /\ st' = FoldLeft(LAMBDA acc, i : StepG(acc, v, W, Cap), st, [i \in 1..n |-> i])
                 /\ input' = input \o [i \in 1..n |-> v]
            /\ nruns' = nruns + 1
\* a stretch of n values without two equal neighbours (stays bit-packed)
WriteAlt == /\ Runs # {} /\ nruns < MaxRuns
            /\ \E v \in 0..(Pow2(W) - 1), n \in Runs :
                 LET alt == [i \in 1..n |-> (v + i) % Pow2(W)] IN
                 /\ st' = FoldLeft(LAMBDA acc, i : StepG(acc, alt[i], W, Cap), st, [i \in 1..n |-> i])
                 /\ input' = input \o alt
            /\ nruns' = nruns + 1
Next == WriteOne \/ WriteRun \/ WriteAlt
Spec == Init /\ [][Next]_vars

Stream == FinalizeG(st, W, Cap)
WellFormedAndFaithful == EncodesTo(Stream, input, W)
PadIsZero == LET d == Decode(Stream, W) IN d.ok => \A i \in (Len(input) + 1)..Len(d.vals) : d.vals[i] = 0
StateOK == /\ st.gc <= 63 /\ Len(st.buf) < 8
           /\ (st.hp = 0) <=> (st.gc = 0)
\* a bit-packed header is a single byte: every header the encoder back-patches fits
HeadersFit == \A i \in 1..Len(st.out) : st.out[i] \in 0..255
=============================================================================
