------------------------------ MODULE MC_Stats ------------------------------
(* every page of length <= MaxLen over {null, NaN, rank 0..NRank-1}, added   *)
(* entry by entry; the header built from the accumulator is sound.           *)
EXTENDS Stats
CONSTANTS MaxLen, NRank, SentinelBug
VARIABLES page, acc
vars == <<page, acc>>
Init == page = <<>> /\ acc = EmptyAcc
Next == /\ Len(page) < MaxLen
        /\ \E e \in (-2)..(NRank - 1) : page' = Append(page, e) /\ acc' = AddEntry(acc, e, SentinelBug)
Spec == Init /\ [][Next]_vars
SoundInv  == MinMaxSound(page, Header(acc, page))
NullInv   == NullCountExact(page, Header(acc, page))
AbsentInv == AbsentWhenEmpty(page, Header(acc, page))
=============================================================================
