----------------------------- MODULE ExportSched -----------------------------
(* Case export for C13: schedules at yield-point granularity.  A schedule is *)
(* a sequence of segments <<instance, n>>: release that instance's next n    *)
(* sink/source calls; consecutive segments name different instances; after   *)
(* the last segment every instance runs to completion.                      *)
EXTENDS Integers, Sequences, SequencesExt, Json, TLC
CONSTANTS OutFile, NInst, MaxSegs, Steps
RECURSIVE Scheds(_, _)
Scheds(k, lastI) ==
  IF k = 0 THEN {<<>>}
  ELSE {<<>>} \cup UNION {{<< <<i, n>> >> \o s : s \in Scheds(k - 1, i)} : i \in (1..NInst) \ {lastI}, n \in Steps}
ASSUME ndJsonSerialize(OutFile, << [schedules |-> SetToSeq(Scheds(MaxSegs, 0))] >>)
=============================================================================
