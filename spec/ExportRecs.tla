----------------------------- MODULE ExportRecs -----------------------------
(* Case export: for every schema in SchemaFile (one JSON object per line,   *)
(* {id, schema}), all record structures with list lengths <= MaxList when   *)
(* there are at most Cap of them, otherwise Cap random ones (seeded by      *)
(* `tlc -seed`).  Every leaf slot carries its own token.  Expected results  *)
(* are NOT exported: they are recomputed by the trace specification.        *)
EXTENDS Dremel, Json
CONSTANTS SchemaFile, OutFile, MaxList, Cap

Schemas == ndJsonDeserialize(SchemaFile)

Limit == 30000
SatMul(a, b) == IF a = 0 \/ b = 0 THEN 0 ELSE IF a > (Limit \div b) THEN Limit ELSE a * b
SatAdd(a, b) == IF a + b > Limit THEN Limit ELSE a + b
RECURSIVE SatPow(_, _)
SatPow(a, m) == IF m = 0 THEN 1 ELSE SatMul(a, SatPow(a, m - 1))

RECURSIVE CountVals(_, _), CountBase(_, _)
CountBase(n, L) ==
  IF IsLeaf(n) THEN 1
  ELSE FoldLeft(LAMBDA acc, k : SatMul(acc, CountVals(k, L)), 1, n.kids)
CountVals(n, L) ==
  CASE n.rep = "req" -> CountBase(n, L)
    [] n.rep = "opt" -> SatAdd(1, CountBase(n, L))
    [] n.rep = "rep" -> FoldLeft(LAMBDA acc, m : SatAdd(acc, SatPow(CountBase(n, L), m)), 0, [m \in 1..(L + 1) |-> m - 1])
CountRecords(kids, L) == FoldLeft(LAMBDA acc, k : SatMul(acc, CountVals(k, L)), 1, kids)

RECURSIVE RandVal(_, _), RandBase(_, _)
RandBase(n, L) ==
  IF IsLeaf(n) THEN 0 ELSE [i \in 1..Len(n.kids) |-> RandVal(n.kids[i], L)]
RandVal(n, L) ==
  CASE n.rep = "req" -> RandBase(n, L)
    [] n.rep = "opt" -> IF RandomElement({0, 1}) = 0 THEN <<>> ELSE <<RandBase(n, L)>>
    [] n.rep = "rep" -> [i \in 1..RandomElement(0..L) |-> RandBase(n, L)]
RandRecord(kids, L) == [i \in 1..Len(kids) |-> RandVal(kids[i], L)]

CasesOf(kids) ==
  IF CountRecords(kids, MaxList) <= Cap
  THEN LET R == Records(kids, MaxList) IN
       [exhaustive |-> TRUE, count |-> Cardinality(R),
        recs |-> SetToSeq({RenumberRecord(kids, r) : r \in R})]
  ELSE [exhaustive |-> FALSE, count |-> CountRecords(kids, MaxList),
        recs |-> [j \in 1..Cap |-> RenumberRecord(kids, RandRecord(kids, MaxList))]]

ASSUME ndJsonSerialize(OutFile,
         [i \in 1..Len(Schemas) |->
            LET c == CasesOf(Schemas[i].schema) IN
            [id |-> Schemas[i].id, exhaustive |-> c.exhaustive, count |-> c.count, recs |-> c.recs]])
=============================================================================
