---------------------------- MODULE MC_Assembly ----------------------------
(* The generated reader's column-at-a-time assembly (Assembly.tla) inverts   *)
(* striping for every schema of the bounded grammar and every record       *)
(* structure with lists up to MaxList, and separately for the schema with  *)
(* three nested repeated groups (Rep3 of the fixed schema set), which the  *)
(* node budget of the grammar does not reach.                              *)
EXTENDS Assembly
CONSTANTS MaxNodes, MaxDepth, MaxKids, MaxList, OnlyRep3

Leaf(r) == [rep |-> r, kids |-> <<>>]
Grp(r, ks) == [rep |-> r, kids |-> ks]
\* Rec{ID; Racks []{Sensors []{Readings []{Seq; Value *}}}}
Rep3 == << Leaf("req"), Grp("rep", << Grp("rep", << Grp("rep", << Leaf("req"), Leaf("opt") >>) >>) >>) >>

Init == InitWith(IF OnlyRep3 THEN {Rep3} ELSE Shapes(MaxNodes, MaxDepth, MaxKids), MaxList)
Spec == Init /\ [][Next]_vars
=============================================================================
