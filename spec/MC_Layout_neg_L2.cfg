CONSTANTS MaxPage = 2 NCols = 2 MaxOps = 7
  FaultAt = {}
  EmptyWriteEmitsPages = FALSE FooterSkipsDroppedBytes = FALSE FooterCountsAddedRows = TRUE SwallowSinkError = FALSE
SPECIFICATION Spec
INVARIANTS FooterTruthful
CHECK_DEADLOCK FALSE
