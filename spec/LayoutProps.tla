---------------------------- MODULE LayoutProps ----------------------------
(***************************************************************************)
(* The file-level properties C02 / C06 as predicates over                  *)
(*   snk : what reached the sink, a sequence of segments                   *)
(*         [kind, len, w, col, n, nvals, ulen]                             *)
(*           kind  magic | hdr | body | orphan | footer | flen             *)
(*           len   bytes of the segment                                    *)
(*           w     index of the Write call that produced it (pages)        *)
(*           col   column (pages)                                          *)
(*           n     records in the page      (hdr)                          *)
(*           nvals level entries / values   (hdr)                          *)
(*           ulen  uncompressed payload size (hdr)                         *)
(*   ftr : the footer, [numRows, rgs : seq of [rows, tbs, cols : seq of    *)
(*         [off, fo, bytes, ubytes, nvals, codec]]]                        *)
(* One definition, used both by the model (Layout.tla, where the segments  *)
(* are produced by the specification's actions) and by the trace           *)
(* specification (TraceW.tla, where they are the projection of the bytes   *)
(* the real writer produced).                                              *)
(***************************************************************************)
EXTENDS Integers, Sequences, FiniteSets, SequencesExt, TLC

Sum(s) == FoldLeft(LAMBDA acc, x : acc + x, 0, s)

Seg(k, len, w, c, n, nv, ul) == [kind |-> k, len |-> len, w |-> w, col |-> c, n |-> n, nvals |-> nv, ulen |-> ul]

PosIn(snk, i) == Sum([j \in 1..(i - 1) |-> snk[j].len])
HdrIdxOf(snk) == {i \in 1..Len(snk) : snk[i].kind = "hdr"}
WritesOf(snk) == {snk[i].w : i \in HdrIdxOf(snk)}
\* the Write calls that stored at least one record
WritesWithRowsOf(snk) == {w \in WritesOf(snk) : \E i \in HdrIdxOf(snk) : snk[i].w = w /\ snk[i].n > 0}
NthOf(S, k) == CHOOSE w \in S : Cardinality({v \in S : v < w}) = k - 1
PagesOfChunk(snk, w, c) == {i \in HdrIdxOf(snk) : snk[i].w = w /\ snk[i].col = c}
FirstPageOf(snk, w, c) == CHOOSE i \in PagesOfChunk(snk, w, c) : \A j \in PagesOfChunk(snk, w, c) : i <= j
SumOver(S, f(_)) == FoldLeft(LAMBDA acc, i : acc + f(i), 0, SetToSeq(S))
RowsOfWrite(snk, w) == SumOver(PagesOfChunk(snk, w, 1), LAMBDA i : snk[i].n)
\* a page is its header segment and the body segment that follows it
PageBytes(snk, i)  == snk[i].len + snk[i + 1].len
PageUBytes(snk, i) == snk[i].len + snk[i].ulen

\* C06: one row group per Write that stored rows, in order
RowGroupsMatchBatches(snk, ftr) ==
  /\ Len(ftr.rgs) = Cardinality(WritesWithRowsOf(snk))
  /\ \A k \in 1..Len(ftr.rgs) :
        k <= Cardinality(WritesWithRowsOf(snk)) =>
          ftr.rgs[k].rows = RowsOfWrite(snk, NthOf(WritesWithRowsOf(snk), k))

\* C02: every offset, size and count in the footer agrees with the sink
ChunkTruthful(snk, ch, w, c, codec) ==
  LET P     == PagesOfChunk(snk, w, c)
      start == PosIn(snk, FirstPageOf(snk, w, c))
      comp  == SumOver(P, LAMBDA i : PageBytes(snk, i))
  IN /\ P # {}
     /\ ch.off = start
     /\ ch.fo \in {start, start + comp, 0}
     /\ ch.bytes = comp
     /\ ch.ubytes = SumOver(P, LAMBDA i : PageUBytes(snk, i))
     /\ ch.nvals = SumOver(P, LAMBDA i : snk[i].nvals)
     /\ ch.codec = codec

FooterTruthfulOn(snk, ftr, ncols, codec) ==
  /\ RowGroupsMatchBatches(snk, ftr)
  /\ \A k \in 1..Len(ftr.rgs) :
       k <= Cardinality(WritesWithRowsOf(snk)) =>
         LET w == NthOf(WritesWithRowsOf(snk), k) IN
         /\ Len(ftr.rgs[k].cols) = ncols
         /\ \A c \in 1..ncols : c <= Len(ftr.rgs[k].cols) => ChunkTruthful(snk, ftr.rgs[k].cols[c], w, c, codec)
         /\ ftr.rgs[k].tbs \in {Sum([c \in 1..Len(ftr.rgs[k].cols) |-> ftr.rgs[k].cols[c].bytes]),
                                Sum([c \in 1..Len(ftr.rgs[k].cols) |-> ftr.rgs[k].cols[c].ubytes])}
  /\ ftr.numRows = Sum([k \in 1..Len(ftr.rgs) |-> ftr.rgs[k].rows])

\* C02: at most maxPage records per page
PagesLegalOn(snk, maxPage) == \A i \in HdrIdxOf(snk) : snk[i].n <= maxPage

\* C02: PAR1 ... footer, 4-byte length, PAR1
FramingOn(snk) ==
  /\ Len(snk) >= 4
  /\ snk[1].kind = "magic" /\ snk[1].len = 4
  /\ snk[Len(snk)].kind = "magic" /\ snk[Len(snk)].len = 4
  /\ snk[Len(snk) - 1].kind = "flen" /\ snk[Len(snk) - 1].len = 4
  /\ snk[Len(snk) - 2].kind = "footer"
=============================================================================
