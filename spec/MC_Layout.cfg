CONSTANTS MaxPage = 2 NCols = 2 MaxOps = 7
  FaultAt = {}
  EmptyWriteEmitsPages = FALSE FooterSkipsDroppedBytes = FALSE FooterCountsAddedRows = FALSE SwallowSinkError = FALSE
SPECIFICATION Spec
INVARIANTS TypeOK FooterTruthful PagesLegal Framing EmptyWriteInert FaultReported
CHECK_DEADLOCK FALSE
