------------------------------ MODULE TraceBits ------------------------------
(***************************************************************************)
(* Trace specification for the leaf encoders (C07, C17): judges what the   *)
(* REAL level encoder / decoder and the real Pack / Unpack produced,       *)
(* recorded by harness/coldrv and by the in-package sweep, against         *)
(* Hybrid.tla and Bitpack.tla.  Non-blocking, like TraceW.                 *)
(***************************************************************************)
EXTENDS Hybrid, Json

CONSTANTS TraceFile, Props
VARIABLES l
vars == <<l>>

Trace == ndJsonDeserialize(TraceFile)
Ev == Trace[l]
More == l <= Len(Trace)

Chk(prop, name, cond) ==
  IF prop \notin Props \/ cond THEN TRUE
  ELSE PrintT(<<"VERDICT", "bits", l, prop, name>>)

Init == l = 1

Judge ==
  CASE Ev.ev = "Enc" ->
         /\ Chk("C07", "EncoderRuns", Ev.problem = "")
         /\ Chk("C07", "StreamWellFormedAndFaithful", Ev.problem = "" => EncodesTo(Ev.stream, Ev.levels, Ev.w))
         /\ Chk("C17", "EncoderPacksGroupsPerSpec", Ev.problem = "" => EncodesTo(Ev.stream, Ev.levels, Ev.w))
         /\ Chk("C07", "PaddingIsZero",
                Ev.problem = "" => LET d == Decode(Ev.stream, Ev.w) IN
                                   d.ok => \A i \in (Len(Ev.levels) + 1)..Len(d.vals) : d.vals[i] = 0)
         \* diagnostic only: the faithful encoder model still matches the code byte for byte
         /\ (IF Ev.problem = "" /\ EncodeAll(Ev.levels, Ev.w) # Ev.stream THEN PrintT(<<"DRIFT", l>>) ELSE TRUE)
    [] Ev.ev = "Dec" ->
         /\ Chk("HARNESS", "ForeignStreamIsLegal",
                LET d == Decode(Ev.stream, Ev.w) IN
                d.ok /\ Len(d.vals) >= Len(Ev.levels) /\ SubSeq(d.vals, 1, Len(Ev.levels)) = Ev.levels)
         /\ Chk("C07", "DecoderRuns", Ev.problem = "")
         /\ Chk("C07", "DecoderReturnsTheLevels", Ev.problem = "" => Ev.out = Ev.levels)
         /\ Chk("C07", "DecoderConsumesExactlyTheStream", Ev.problem = "" => Ev.restok)
         /\ Chk("C17", "DecoderUnpacksGroupsPerSpec", Ev.problem = "" /\ Ev.out = Ev.levels)
    [] Ev.ev \in {"EncAll", "RunsAll"} -> Chk("C07", "SweepClean", Ev.nbad = 0)
    [] Ev.ev = "Mirror" -> Chk("HARNESS", "MirrorAgreesWithSpec", Ev.nbad = 0 /\ Ev.n > 0)
    [] Ev.ev = "Pack" ->
         /\ Chk("C17", "PackIsSpecLayout", Pack(Ev.vals, Ev.w) = Ev.bytes)
         /\ Chk("C17", "UnpackInvertsPack", Ev.back = Ev.vals)
    [] Ev.ev = "Unpack" ->
         /\ Chk("C17", "UnpackIsSpecLayout", Unpack(Ev.bytes, Ev.w) = Ev.vals)
         /\ Chk("C17", "PackInvertsUnpack", Ev.back = Ev.bytes)
    [] Ev.ev = "Sweep" -> Chk("C17", "SweepClean", Ev.nbad = 0 /\ Ev.count > 0)
    [] Ev.ev = "HarnessError" -> Chk("HARNESS", "HarnessError", FALSE)
    [] OTHER -> TRUE

TStep == /\ More /\ Judge /\ l' = l + 1
TDone == /\ l = Len(Trace) + 1 /\ PrintT(<<"TRACEDONE", Len(Trace)>>) /\ UNCHANGED vars
Next == TStep \/ TDone
Spec == Init /\ [][Next]_vars
AllConsumed == TLCGet("stats").diameter = Len(Trace) + 1
=============================================================================
