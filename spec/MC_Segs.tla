------------------------------- MODULE MC_Segs -------------------------------
(* every legal segmentation of every level sequence up to MaxLen decodes    *)
(* (by the reference decoder) to that sequence                              *)
EXTENDS Hybrid
CONSTANTS W, MaxLen
VARIABLES levels, segs, pad
vars == <<levels, segs, pad>>
Init == /\ levels \in UNION {[1..n -> 0..(Pow2(W) - 1)] : n \in 0..MaxLen}
        /\ segs \in Segmentations(levels)
        /\ pad \in {0, Pow2(W) - 1}
Next == UNCHANGED vars
Spec == Init /\ [][Next]_vars
AllForeignOK == ForeignOK(levels, segs, W, pad)
=============================================================================
