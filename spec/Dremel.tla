------------------------------- MODULE Dremel -------------------------------
(***************************************************************************)
(* Schemas, records, Dremel striping and assembly.                         *)
(*                                                                         *)
(* A schema is a sequence of nodes (the children of the root).  A node is  *)
(* a record with at least                                                  *)
(*     rep  \in {"req", "opt", "rep"}                                      *)
(*     kids : sequence of nodes (<<>> for a leaf)                          *)
(* (nodes coming from the implementation also carry typ and name).         *)
(*                                                                         *)
(* Record values use only integers and sequences:                          *)
(*     required  -> the base value                                         *)
(*     optional  -> <<>> or <<base>>                                       *)
(*     repeated  -> sequence of base values                                *)
(*     base of a group -> tuple of its children's values, in order         *)
(*     base of a leaf  -> a token (natural number)                         *)
(* A record is the base value of the root group.                           *)
(*                                                                         *)
(* This is the text-book definition (Melnik et al., "Dremel", sec. 4.1 /   *)
(* the Parquet format description); it is deliberately NOT a               *)
(* transcription of parquetgen's case analysis.                            *)
(***************************************************************************)
EXTENDS Integers, Sequences, FiniteSets, SequencesExt, TLC

Reps == {"req", "opt", "rep"}

IsLeaf(n) == n.kids = <<>>

Idx(s) == [i \in 1..Len(s) |-> i]

Concat(ss) == FoldLeft(LAMBDA acc, s : acc \o s, <<>>, ss)

\* ---------------------------------------------------------------- columns

\* all leaf paths (sequences of child indices) below kids, depth first
RECURSIVE LeafPaths(_)
LeafPaths(kids) ==
  Concat([i \in 1..Len(kids) |->
            IF IsLeaf(kids[i]) THEN << <<i>> >>
            ELSE LET sub == LeafPaths(kids[i].kids)
                 IN [j \in 1..Len(sub) |-> <<i>> \o sub[j]]])

\* the nodes along a path
RECURSIVE ChainOf(_, _)
ChainOf(kids, path) ==
  IF path = <<>> THEN <<>>
  ELSE <<kids[path[1]]>> \o ChainOf(kids[path[1]].kids, Tail(path))

CountIf(s, P(_)) == Cardinality({i \in 1..Len(s) : P(s[i])})
MaxDefOf(chain) == CountIf(chain, LAMBDA n : n.rep # "req")
MaxRepOf(chain) == CountIf(chain, LAMBDA n : n.rep = "rep")

\* ---------------------------------------------------------------- striping
\* entry = <<rep, def, tok>>, tok = -1 when def < MaxDef
\*   r  : repetition level inherited by the first entry produced
\*   d  : number of defined non-required ancestors so far
\*   rd : number of repeated ancestors so far
RECURSIVE StripeNode(_, _, _, _, _, _), StripeBase(_, _, _, _, _, _)
StripeBase(chain, path, b, r, d, rd) ==
  IF Len(chain) = 1 THEN << <<r, d, b>> >>
  ELSE StripeNode(Tail(chain), Tail(path), b[path[2]], r, d, rd)
StripeNode(chain, path, v, r, d, rd) ==
  LET n == Head(chain) IN
  CASE n.rep = "req" -> StripeBase(chain, path, v, r, d, rd)
    [] n.rep = "opt" -> IF v = <<>> THEN << <<r, d, -1>> >>
                        ELSE StripeBase(chain, path, v[1], r, d + 1, rd)
    [] n.rep = "rep" -> IF v = <<>> THEN << <<r, d, -1>> >>
                        ELSE Concat([i \in 1..Len(v) |->
                               StripeBase(chain, path, v[i],
                                          IF i = 1 THEN r ELSE rd + 1, d + 1, rd + 1)])

\* the column entries of one record
Stripe(kids, path, rec) ==
  StripeNode(ChainOf(kids, path), path, rec[path[1]], 0, 0, 0)

\* the column entries of a sequence of records
StripeAll(kids, path, recs) == Concat([k \in 1..Len(recs) |-> Stripe(kids, path, recs[k])])

\* ---------------------------------------------------------------- assembly
\* The inverse, as a reader that knows only the Parquet specification would
\* do it: cols maps every leaf path to that column's entries for ONE record.
\* For a node at path p: its columns are the leaf paths with prefix p.

IsPrefix2(p, q) == Len(p) <= Len(q) /\ SubSeq(q, 1, Len(p)) = p

\* split entries at the positions where a new element of the list at
\* repetition depth r starts
Starts(es, r) == {i \in 1..Len(es) : i = 1 \/ es[i][1] <= r}
PieceOf(es, r, k) ==
  LET st == SortSeq(SetToSeq(Starts(es, r)), LAMBDA x, y : x < y)
      a  == st[k]
      b  == IF k < Len(st) THEN st[k + 1] - 1 ELSE Len(es)
  IN SubSeq(es, a, b)
NPieces(es, r) == Cardinality(Starts(es, r))

RECURSIVE AsmNode(_, _, _, _, _), AsmBase(_, _, _, _, _)
\* n: node, p: its path, cols: [leaf path -> entries of the current instance],
\* d: defined non-required ancestors, rd: repeated ancestors
AsmBase(n, p, cols, d, rd) ==
  IF IsLeaf(n) THEN cols[p][1][3]
  ELSE [i \in 1..Len(n.kids) |-> AsmNode(n.kids[i], p \o <<i>>, cols, d, rd)]
AsmNode(n, p, cols, d, rd) ==
  LET mine  == {q \in DOMAIN cols : IsPrefix2(p, q)}
      first == CHOOSE q \in mine : TRUE   \* any column below the node tells whether it is present
  IN
  CASE n.rep = "req" -> AsmBase(n, p, cols, d, rd)
    [] n.rep = "opt" -> IF cols[first][1][2] <= d THEN <<>>
                        ELSE <<AsmBase(n, p, cols, d + 1, rd)>>
    [] n.rep = "rep" -> IF cols[first][1][2] <= d THEN <<>>
                        ELSE [k \in 1..NPieces(cols[first], rd + 1) |->
                                AsmBase(n, p, [q \in mine |-> PieceOf(cols[q], rd + 1, k)], d + 1, rd + 1)]

Assemble(kids, cols) ==
  [i \in 1..Len(kids) |-> AsmNode(kids[i], <<i>>, cols, 0, 0)]

StripeRecord(kids, rec) ==
  LET lp == LeafPaths(kids) IN
  [q \in {lp[i] : i \in 1..Len(lp)} |-> Stripe(kids, q, rec)]

\* ---------------------------------------------------------------- footer schema (C02, C15)
\* the flattened schema list a writer must record for a schema whose nodes
\* carry typ and name: depth first, groups with num_children, leaves with
\* physical / converted type (parquet.thrift numbering)
TypeNum(t) == CASE t = "bool" -> 0 [] t \in {"int32", "uint32"} -> 1 [] t \in {"int64", "uint64"} -> 2
                [] t = "float32" -> 4 [] t = "float64" -> 5 [] t = "string" -> 6 [] OTHER -> -1
CTypeNum(t) == CASE t = "uint32" -> 13 [] t = "uint64" -> 14 [] OTHER -> -1
RepNum(r) == CASE r = "req" -> 0 [] r = "opt" -> 1 [] r = "rep" -> 2

RECURSIVE SchemaElems(_)
SchemaElems(kids) ==
  Concat([i \in 1..Len(kids) |->
     LET n == kids[i] IN
     IF IsLeaf(n)
     THEN << [name |-> n.name, rep |-> RepNum(n.rep), type |-> TypeNum(n.typ), ctype |-> CTypeNum(n.typ), nch |-> 0] >>
     ELSE << [name |-> n.name, rep |-> RepNum(n.rep), type |-> -1, ctype |-> -1, nch |-> Len(n.kids)] >>
          \o SchemaElems(n.kids)])

\* an observed element list (first element = root) matches the schema
ElemMatches(o, e) ==
  /\ o.name = e.name /\ o.rep = e.rep /\ o.type = e.type /\ o.ctype = e.ctype
  /\ IF e.type = -1 THEN o.nch = e.nch ELSE o.nch \in {-1, 0}
SchemaMatches(obs, kids) ==
  LET want == SchemaElems(kids) IN
  /\ Len(obs) = Len(want) + 1
  /\ obs[1].type = -1 /\ obs[1].nch = Len(kids) /\ obs[1].rep \in {-1, 0}
  /\ \A i \in 1..Len(want) : ElemMatches(obs[i + 1], want[i])

\* C15: the struct `parquetgen -parquet` must regenerate from the footer of a file
\* written for kids (no repeated nodes): same nesting, names (kept as tags),
\* optionality; the physical type decides the Go type, so unsigned becomes signed
RegenType(t) == CASE t = "uint32" -> "int32" [] t = "uint64" -> "int64" [] OTHER -> t
RECURSIVE Regen(_)
Regen(kids) == [i \in 1..Len(kids) |->
                  [rep |-> kids[i].rep, typ |-> RegenType(kids[i].typ), name |-> kids[i].name, kids |-> Regen(kids[i].kids)]]

\* C14: decorated schemas.  A decorated node may carry excl = TRUE (a field that
\* is unexported or tagged parquet:"-") or emb = TRUE (an embedded struct).
\* Erase gives the schema the file must have: excluded fields vanish, embedded
\* structs are replaced by their (erased) fields.
IsExcl(n) == "excl" \in DOMAIN n /\ n.excl
IsEmb(n) == "emb" \in DOMAIN n /\ n.emb
RECURSIVE Erase(_)
Erase(kids) ==
  Concat([i \in 1..Len(kids) |->
     IF IsExcl(kids[i]) THEN <<>>
     ELSE IF IsEmb(kids[i]) THEN Erase(kids[i].kids)
     ELSE << [rep |-> kids[i].rep, kids |-> Erase(kids[i].kids)] >>])
\* insert an excluded field at position pos (0..Len) of the struct at path
RECURSIVE InsertExcl(_, _, _)
InsertExcl(kids, path, pos) ==
  IF path = <<>> THEN SubSeq(kids, 1, pos) \o << [rep |-> "req", kids |-> <<>>, excl |-> TRUE] >> \o SubSeq(kids, pos + 1, Len(kids))
  ELSE [kids EXCEPT ![path[1]] = [@ EXCEPT !.kids = InsertExcl(@, Tail(path), pos)]]
\* replace fields start..start+len-1 of the struct at path by an embedded struct holding them
RECURSIVE EmbedRun(_, _, _, _)
EmbedRun(kids, path, start, len) ==
  IF path = <<>> THEN SubSeq(kids, 1, start - 1) \o << [rep |-> "req", kids |-> SubSeq(kids, start, start + len - 1), emb |-> TRUE] >>
                      \o SubSeq(kids, start + len, Len(kids))
  ELSE [kids EXCEPT ![path[1]] = [@ EXCEPT !.kids = EmbedRun(@, Tail(path), start, len)]]
\* all group paths (<<>> = the root struct)
RECURSIVE GroupPaths(_)
GroupPaths(kids) ==
  {<<>>} \cup UNION {{<<i>> \o p : p \in GroupPaths(kids[i].kids)} : i \in {j \in 1..Len(kids) : ~IsLeaf(kids[j])}}
RECURSIVE KidsAt(_, _)
KidsAt(kids, path) == IF path = <<>> THEN kids ELSE KidsAt(kids[path[1]].kids, Tail(path))
ExclSites(kids) == {<<p, pos>> : p \in GroupPaths(kids), pos \in 0..3} \cap
                   UNION {{<<p, pos>> : pos \in 0..Len(KidsAt(kids, p))} : p \in GroupPaths(kids)}
EmbedSites(kids) == UNION {{<<p, s, n>> : s \in 1..Len(KidsAt(kids, p)), n \in 1..Len(KidsAt(kids, p))} : p \in GroupPaths(kids)}
Plain(kids) == Erase(kids)

\* dotted column names, in column order
RECURSIVE PathNames(_, _)
PathNames(kids, path) ==
  IF path = <<>> THEN <<>> ELSE <<kids[path[1]].name>> \o PathNames(kids[path[1]].kids, Tail(path))

\* ---------------------------------------------------------------- bounded universes

\* structure-only nodes: size (number of nodes) <= n, depth <= d, <= k children
\* per group.  Enumerated with a size budget so that the sets stay small.
RECURSIVE Size(_)
Size(n) == 1 + FoldLeft(LAMBDA acc, x : acc + Size(x), 0, n.kids)
ForestSize(kids) == FoldLeft(LAMBDA acc, x : acc + Size(x), 0, kids)

Leaves == {[rep |-> r, kids |-> <<>>] : r \in Reps}

RECURSIVE NodesUpTo(_, _, _), ForestsOf(_, _, _, _)
\* forests of exactly m trees with total size <= n
ForestsOf(n, d, k, m) ==
  IF m = 0 THEN {<<>>}
  ELSE IF n < m THEN {}
  ELSE UNION {{<<t>> \o f : f \in ForestsOf(n - Size(t), d, k, m - 1)} :
                t \in NodesUpTo(n - (m - 1), d, k)}
NodesUpTo(n, d, k) ==
  IF n < 1 THEN {}
  ELSE Leaves \cup
       (IF d <= 1 \/ n < 2 THEN {}
        ELSE {[rep |-> r, kids |-> ks] : r \in Reps,
                ks \in UNION {ForestsOf(n - 1, d - 1, k, m) : m \in 1..k}})

\* forests (root children) with <= n nodes in total
Shapes(n, d, k) == UNION {ForestsOf(n, d, k, m) : m \in 1..k}

\* all values of a node with list lengths <= L; every leaf carries token 0
RECURSIVE Values(_, _), BaseValues(_, _)
TupleSet(sets) ==   \* cartesian product of a sequence of sets, as tuples
  FoldLeft(LAMBDA acc, s : {Append(t, x) : t \in acc, x \in s}, {<<>>}, sets)
BaseValues(n, L) ==
  IF IsLeaf(n) THEN {0}
  ELSE TupleSet([i \in 1..Len(n.kids) |-> Values(n.kids[i], L)])
Values(n, L) ==
  LET B == BaseValues(n, L) IN
  CASE n.rep = "req" -> B
    [] n.rep = "opt" -> {<<>>} \cup {<<b>> : b \in B}
    [] n.rep = "rep" -> UNION {[1..m -> B] : m \in 0..L}

Records(kids, L) == TupleSet([i \in 1..Len(kids) |-> Values(kids[i], L)])

\* give every leaf slot of a value its own token (depth-first numbering), so
\* that a misplaced value is visible
RECURSIVE Renumber(_, _, _)
\* returns <<value, next token>>
Renumber(n, v, t) ==
  LET base(b, t0) ==
        IF IsLeaf(n) THEN <<t0, t0 + 1>>
        ELSE FoldLeft(LAMBDA acc, i :
                        LET r == Renumber(n.kids[i], b[i], acc[2])
                        IN <<Append(acc[1], r[1]), r[2]>>,
                      <<<<>>, t0>>, Idx(n.kids))
  IN
  CASE n.rep = "req" -> base(v, t)
    [] OTHER -> FoldLeft(LAMBDA acc, i :
                           LET r == base(v[i], acc[2])
                           IN <<Append(acc[1], r[1]), r[2]>>,
                         <<<<>>, t>>, Idx(v))

RenumberRecord(kids, rec) ==
  FoldLeft(LAMBDA acc, i :
             LET r == Renumber(kids[i], rec[i], acc[2])
             IN <<Append(acc[1], r[1]), r[2]>>,
           <<<<>>, 0>>, Idx(kids))[1]

\* ---------------------------------------------------------------- properties of the striping (checked by MC_Dremel)

LevelsBounded(kids, rec) ==
  \A i \in 1..Len(LeafPaths(kids)) :
     LET p  == LeafPaths(kids)[i]
         ch == ChainOf(kids, p)
         es == Stripe(kids, p, rec)
     IN /\ Len(es) >= 1
        /\ es[1][1] = 0
        /\ \A j \in 2..Len(es) : es[j][1] >= 1
        /\ \A j \in 1..Len(es) : /\ es[j][1] <= MaxRepOf(ch)
                                 /\ es[j][2] <= MaxDefOf(ch)
                                 /\ (es[j][3] = -1) <=> (es[j][2] < MaxDefOf(ch))

\* two columns below a common ancestor agree on that ancestor's structure:
\* cut at the common prefix, both see the same entries (rep capped, def capped)
CommonLen(p, q) ==
  LET S == {j \in 0..Len(p) : j <= Len(q) /\ SubSeq(p, 1, j) = SubSeq(q, 1, j)}
  IN CHOOSE m \in S : \A j \in S : j <= m

Skeleton(es, rcap, dcap) ==
  \* entries that start an instance visible at the common ancestor, with the
  \* definition level capped at the ancestor's depth
  SelectSeq([j \in 1..Len(es) |-> <<es[j][1], IF es[j][2] > dcap THEN dcap ELSE es[j][2]>>],
            LAMBDA e : e[1] <= rcap)

SiblingsConsistent(kids, rec) ==
  LET lp == LeafPaths(kids) IN
  \A i, j \in 1..Len(lp) :
     LET p == lp[i]
         q == lp[j]
         m == CommonLen(p, q)
         common == ChainOf(kids, SubSeq(p, 1, m))
     IN m >= 1 =>
          Skeleton(Stripe(kids, p, rec), MaxRepOf(common), MaxDefOf(common))
        = Skeleton(Stripe(kids, q, rec), MaxRepOf(common), MaxDefOf(common))

RoundTrips(kids, rec) == Assemble(kids, StripeRecord(kids, rec)) = rec

=============================================================================
