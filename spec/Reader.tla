------------------------------- MODULE Reader -------------------------------
(***************************************************************************)
(* The reader's I/O protocol and iteration, with an environment.           *)
(*                                                                         *)
(* Structured like the generated ParquetReader + parquet.Metadata:         *)
(*   NewParquetReader: Seek(-8,End), Read(4) = footer length,              *)
(*     Seek(-(n+8),End), Read* = footer, Seek(4,Start), load row group 1   *)
(*   load row group g: for every column in footer order, for every page:   *)
(*     Read* = page header, Read = page body                               *)
(*   Next: cursor/rows, rowGroupCursor/rowGroupCount; loads the next row   *)
(*     group when the current one is exhausted; sticky error               *)
(* Every source call is one step so that the environment can act on it.    *)
(*                                                                         *)
(* Environment (chosen in Init, one per behaviour):                        *)
(*   none            benign source                                         *)
(*   fault at k      the k-th Read/Seek call fails                         *)
(*   short at k      the k-th call returns fewer bytes than asked (legal)  *)
(*   trunc           the file was cut before its end (no footer there);    *)
(*                   "trunc, tail" is the cut that removed only trailing    *)
(*                   bytes (at most 8, the footer is still complete) AND    *)
(*                   left, where the footer length is looked for, four      *)
(*                   bytes that lead back to the start of the footer - the  *)
(*                   trailing magic is then all that tells the file from a  *)
(*                   complete one                                           *)
(*   unsup in chunk  one column chunk uses a feature the reader lacks      *)
(*                                                                         *)
(* Deviation switches name ways an implementation can get this wrong.      *)
(***************************************************************************)
EXTENDS Integers, Sequences, FiniteSets, TLC

CONSTANTS NRowGroups, NCols, PagesPerChunk,
          SingleReadPerPage,   \* L3: page bodies are read with one Read call, short reads are not retried
          IgnoreReadError,     \* an error from the source is dropped and decoding goes on
          TrustFooterOnly,     \* a file whose tail is not a footer is treated as empty instead of rejected
          SkipMagicCheck,      \* the four bytes found eight bytes before the end are taken for the footer length, the trailing magic
                               \* is not looked at (the unrepaired getMetaDataSize: defect fixed in /repo 33f284d)
          AcceptUnsupported    \* L5: page type / encoding / level encoding are not validated

VARIABLES env, pc, calls, loaded, cursor, rgCursor, delivered, err, corrupt

vars == <<env, pc, calls, loaded, cursor, rgCursor, delivered, err, corrupt>>

RowsPerGroup == PagesPerChunk                 \* one record per page
TotalRows    == NRowGroups * RowsPerGroup
OpenCalls    == 6                             \* seek, read len, seek, 2 footer reads, seek
LoadCalls    == NCols * PagesPerChunk * 2     \* header + body per page
AllCalls     == OpenCalls + NRowGroups * LoadCalls

\* what the k-th source call is
IsLoadCall(k) == k > OpenCalls
LoadIdx(k)    == k - OpenCalls - 1                       \* 0-based within all loads
IsBody(k)     == IsLoadCall(k) /\ LoadIdx(k) % 2 = 1
IsHdr(k)      == IsLoadCall(k) /\ LoadIdx(k) % 2 = 0
ChunkOfCall(k) == LoadIdx(k) \div (PagesPerChunk * 2)    \* 0-based chunk number (rg-major, column-minor)
IsSeek(k)     == k \in {1, 3, 6}

Envs == {[kind |-> "none", at |-> 0]}
        \cup {[kind |-> "fault", at |-> k] : k \in 1..AllCalls}
        \cup {[kind |-> "short", at |-> k] : k \in {j \in 1..AllCalls : ~IsSeek(j)}}
        \cup {[kind |-> "trunc", at |-> 0]}      \* the tail is no trailer and leads nowhere
        \cup {[kind |-> "trunc", at |-> 1]}      \* only trailing bytes are gone and the "length" found leads to the footer
        \cup {[kind |-> "unsup", at |-> c] : c \in 0..(NRowGroups * NCols - 1)}

Init == /\ env \in Envs
        /\ pc = "opening" /\ calls = 0 /\ loaded = 0 /\ cursor = 0 /\ rgCursor = 0
        /\ delivered = <<>> /\ err = "none" /\ corrupt = FALSE

EndOfLoad(k) == IsLoadCall(k) /\ (k - OpenCalls) % LoadCalls = 0

Fail == /\ err' = IF pc = "opening" THEN "ctor" ELSE "sticky"
        /\ pc' = "failed"
        /\ UNCHANGED <<loaded, cursor, rgCursor, delivered, corrupt>>

Proceed(k, nowCorrupt) ==
  /\ corrupt' = (corrupt \/ nowCorrupt)
  /\ IF EndOfLoad(k)
     THEN /\ loaded' = loaded + 1 /\ rgCursor' = 0 /\ pc' = "ready"
     ELSE /\ UNCHANGED <<loaded, rgCursor>> /\ pc' = IF pc = "opening" THEN "opening" ELSE "loading"
  /\ UNCHANGED <<cursor, delivered, err>>

\* one source call of NewParquetReader or of a row-group load
SrcCall ==
  /\ pc \in {"opening", "loading"}
  /\ LET k == calls + 1 IN
     /\ calls' = k
     /\ IF env.kind = "trunc" /\ k = 2
        THEN \* the last 8 bytes are not a footer trailer
             IF env.at = 1 /\ SkipMagicCheck
             THEN Proceed(k, FALSE)          \* ... but nobody looks: the footer is found and the file read like a complete one
             ELSE IF TrustFooterOnly
             THEN /\ pc' = "done" /\ UNCHANGED <<loaded, cursor, rgCursor, delivered, err, corrupt>>   \* "empty file", no error
             ELSE Fail
        ELSE IF env.kind = "fault" /\ env.at = k
        THEN IF IgnoreReadError THEN Proceed(k, TRUE) ELSE Fail
        ELSE IF env.kind = "short" /\ env.at = k
        THEN Proceed(k, SingleReadPerPage /\ IsBody(k))
        ELSE IF env.kind = "unsup" /\ IsHdr(k) /\ ChunkOfCall(k) = env.at
        THEN IF AcceptUnsupported THEN Proceed(k, TRUE) ELSE Fail
        ELSE Proceed(k, FALSE)
  /\ UNCHANGED env

\* Next + Scan
Next1 ==
  /\ pc = "ready"
  /\ IF cursor >= TotalRows
     THEN /\ pc' = "done" /\ UNCHANGED <<cursor, rgCursor, delivered>>
     ELSE IF rgCursor >= RowsPerGroup
     THEN /\ pc' = "loading" /\ UNCHANGED <<cursor, rgCursor, delivered>>
     ELSE /\ cursor' = cursor + 1 /\ rgCursor' = rgCursor + 1
          /\ delivered' = Append(delivered, IF corrupt THEN -1 ELSE cursor + 1)
          /\ UNCHANGED pc
  /\ UNCHANGED <<env, calls, loaded, err, corrupt>>

Next == SrcCall \/ Next1
Spec == Init /\ [][Next]_vars

Terminal == pc \in {"done", "failed"}
AllRows == [i \in 1..TotalRows |-> i]
Complete == delivered = AllRows /\ err = "none"
Reported == err # "none"

\* C01 / C04: a benign source yields exactly the rows
RoundTrip == (Terminal /\ env.kind = "none") => (pc = "done" /\ Complete)
\* C08: legal short reads change nothing
FragmentationInvariant == (Terminal /\ env.kind = "short") => (pc = "done" /\ Complete)
\* C10: a failed call is reported, or every row delivered is correct and none is missing
NoSilentCorruption == (Terminal /\ env.kind = "fault") => (Reported \/ Complete)
\* C11: a truncated file is never accepted
TruncationRejected == (Terminal /\ env.kind = "trunc") => Reported
\* C18: an unsupported chunk is refused and never decoded into rows
UnsupportedRefused == (env.kind = "unsup") => ((Terminal => Reported) /\ \A i \in 1..Len(delivered) : delivered[i] # -1)

TypeOK == /\ calls \in 0..AllCalls /\ loaded \in 0..NRowGroups /\ cursor \in 0..TotalRows
          /\ pc \in {"opening", "loading", "ready", "done", "failed"}
          /\ Len(delivered) = cursor
=============================================================================
