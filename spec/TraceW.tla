------------------------------- MODULE TraceW -------------------------------
(***************************************************************************)
(* Trace specification: judges executions of the REAL generated writer and *)
(* reader, recorded by harness/driver as one ndjson event per API call,    *)
(* against the specification.  One TLC state per event.                    *)
(*                                                                         *)
(* The judge is non-blocking: every event is consumed, the state is        *)
(* updated from the logged observation, and each property conjunct that    *)
(* fails prints                                                            *)
(*      <<"VERDICT", case, line, property, conjunct>>                      *)
(* so that one finding never hides later cases.  Acceptance = all lines    *)
(* consumed ("TRACEDONE" printed, checked by POSTCONDITION) and no VERDICT. *)
(*                                                                         *)
(* Property predicates come from Dremel (striping, footer schema) and      *)
(* LayoutProps (footer truthfulness, page legality, framing): the same     *)
(* definitions that MC_Dremel / MC_Layout model-check.                     *)
(***************************************************************************)
EXTENDS Dremel, LayoutProps, Stats, PoolProps, Json

CONSTANTS TraceFile,   \* ndjson file with the recorded events
          Props        \* property ids whose conjuncts are evaluated

VARIABLES l,        \* next line of the trace
          caseId,   \* id of the current case
          schema,   \* root children of the record type (from the Go type, by reflection)
          cols,     \* leaf columns, in order
          maxPage, codecN,
          recs,     \* records added since the last Write
          batches,  \* the non-empty batches flushed so far (sequences of records)
          snk,      \* what reached the sink: segments (see LayoutProps)
          wc,       \* number of Write calls so far
          faultK,   \* sink-fault runs: index of the failing sink call
          rowsTab,  \* the distinct row lists delivered by reader runs of this case (Read events refer to them by id)
          clean     \* every Write so far was parsed without structural problems (offsets can be cross-checked)

vars == <<l, caseId, schema, cols, maxPage, codecN, recs, batches, snk, wc, faultK, rowsTab, clean>>

Trace == ndJsonDeserialize(TraceFile)
Ev == Trace[l]
More == l <= Len(Trace)

Chk(prop, name, cond) ==
  IF prop \notin Props \/ cond THEN TRUE
  ELSE PrintT(<<"VERDICT", caseId, l, prop, name>>)

NCols == Len(cols)
ColPath(c) == LeafPaths(schema)[c]
Expected == Concat(batches)

Init == /\ l = 1 /\ caseId = "" /\ schema = <<>> /\ cols = <<>> /\ maxPage = 0 /\ codecN = 0
        /\ recs = <<>> /\ batches = <<>> /\ snk = <<>> /\ wc = 0 /\ faultK = 0 /\ rowsTab = <<>> /\ clean = TRUE

\* ---------------------------------------------------------------- Reset
TReset ==
  /\ More /\ Ev.ev = "Reset"
  /\ caseId' = Ev.case /\ schema' = Ev.schema /\ cols' = Ev.cols
  /\ maxPage' = Ev.max /\ codecN' = Ev.codecn
  /\ recs' = <<>> /\ batches' = <<>> /\ snk' = <<>> /\ wc' = 0 /\ faultK' = 0 /\ rowsTab' = <<>> /\ clean' = TRUE
  /\ l' = l + 1
  \* harness sanity: the driver's column list is the specification's leaf list
  /\ Chk("HARNESS", "ColumnsMatchSchema",
         /\ Len(Ev.cols) = Len(LeafPaths(Ev.schema))
         /\ \A c \in 1..Len(Ev.cols) :
              LET p == LeafPaths(Ev.schema)[c] ch == ChainOf(Ev.schema, p) IN
              /\ Ev.cols[c].path = PathNames(Ev.schema, p)
              /\ Ev.cols[c].maxdef = MaxDefOf(ch) /\ Ev.cols[c].maxrep = MaxRepOf(ch))

\* ---------------------------------------------------------------- NewParquetWriter
TNew ==
  /\ More /\ Ev.ev = "New"
  /\ Chk("C01", "NewSucceeds", Ev.res = "ok")
  /\ Chk("C02", "HeadMagic", Ev.res = "ok" => (Ev.magic /\ Ev.len = 4))
  /\ snk' = IF Ev.len > 0 THEN << Seg("magic", Ev.len, 0, 0, 0, 0, 0) >> ELSE <<>>
  /\ l' = l + 1
  /\ UNCHANGED <<caseId, schema, cols, maxPage, codecN, recs, batches, wc, faultK, rowsTab, clean>>

\* ---------------------------------------------------------------- Add
TAdd ==
  /\ More /\ Ev.ev = "Add"
  /\ Chk("C01", "AddDoesNotPanic", Ev.res = "ok")
  /\ recs' = Append(recs, Ev.rec)
  /\ l' = l + 1
  /\ UNCHANGED <<caseId, schema, cols, maxPage, codecN, batches, snk, wc, faultK, rowsTab, clean>>

\* ---------------------------------------------------------------- Write
\* entries <<rep, def, tok>> stored in one page (tok = -1 where def < maxdef)
RECURSIVE ZipEntries(_, _, _, _, _, _)
ZipEntries(reps, defs, toks, maxdef, i, t) ==
  IF i > Len(defs) THEN <<>>
  ELSE IF defs[i] = maxdef
       THEN << <<reps[i], defs[i], IF t <= Len(toks) THEN toks[t] ELSE -2>> >> \o ZipEntries(reps, defs, toks, maxdef, i + 1, t + 1)
       ELSE << <<reps[i], defs[i], -1>> >> \o ZipEntries(reps, defs, toks, maxdef, i + 1, t)

PageEntries(pg) == ZipEntries(pg.reps, pg.defs, pg.toks, cols[pg.col].maxdef, 1, 1)
ColumnEntries(pages, c) ==
  Concat([i \in 1..Len(pages) |-> IF pages[i].col = c THEN PageEntries(pages[i]) ELSE <<>>])

PageWellFormed(pg) ==
  /\ pg.problems = <<>>
  /\ pg.ptype = 0 /\ pg.enc = 0
  /\ pg.ulen = pg.datalen
  /\ pg.datalen = pg.replen + pg.deflen + pg.vallen
  /\ pg.nvals >= 0
  /\ pg.padr < 8 /\ pg.padd < 8          \* a level stream holds num_values entries plus the padding of its last group
  /\ (cols[pg.col].maxrep > 0 /\ pg.nvals > 0) => pg.firstrep = 0

\* the page as Stats.tla sees it: ranks of the non-null values (NaN = -2), then the nulls
StatPage(pg) == [i \in 1..Len(pg.stats.ords) |-> IF pg.stats.ords[i] < 0 THEN -2 ELSE pg.stats.ords[i]]
                \o [i \in 1..(pg.nvals - pg.nonnull) |-> -1]
StatHdr(pg) == [hasnull |-> pg.stats.hasnull, nullcount |-> pg.stats.nullcount,
                hasmin |-> pg.stats.hasmin, hasmax |-> pg.stats.hasmax, min |-> pg.stats.minord, max |-> pg.stats.maxord]
StatsNullCount(pg) == NullCountExact(StatPage(pg), StatHdr(pg))
StatsSound(pg) == pg.stats.bad = "" /\ MinMaxSound(StatPage(pg), StatHdr(pg))
StatsAbsentWhenEmpty(pg) == AbsentWhenEmpty(StatPage(pg), StatHdr(pg))

\* the page chain of Layout.tla for n pending records: full pages, then the remainder
ChainSplit(n, m) == [i \in 1..((n + m - 1) \div m) |-> IF i * m <= n THEN m ELSE n - (i - 1) * m]

PageSegs(pages, w) ==
  Concat([i \in 1..Len(pages) |->
     << Seg("hdr", pages[i].hlen, w, pages[i].col, pages[i].nrecs, pages[i].nvals, pages[i].ulen),
        Seg("body", pages[i].clen, w, pages[i].col, pages[i].nrecs, pages[i].nvals, 0) >>])

TWrite ==
  /\ More /\ Ev.ev = "Write"
  /\ l' = l + 1 /\ wc' = wc + 1 /\ recs' = <<>>
  /\ Chk("C01", "WriteSucceeds", Ev.res = "ok")
  /\ IF Ev.res # "ok"
     THEN UNCHANGED <<snk, batches, clean>>
     ELSE
       LET pages == Ev.pages
           full  == ~(\E i \in 1..Len(pages) : ~("reps" \in DOMAIN pages[i])) IN
       /\ Chk("C02", "BatchParses", Ev.problems = <<>>)
       /\ Chk("C02", "PageWellFormed", \A i \in 1..Len(pages) : PageWellFormed(pages[i]))
       /\ Chk("C02", "PageSize", \A i \in 1..Len(pages) : pages[i].nrecs <= maxPage)
       /\ Chk("C02", "RecordsPerColumn",
              Ev.problems = <<>> =>
                \A c \in 1..NCols :
                   Sum([i \in 1..Len(pages) |-> IF pages[i].col = c THEN pages[i].nrecs ELSE 0]) = Len(recs))
       /\ Chk("C03", "Striping",
              (full /\ Len(recs) > 0) =>
                \A c \in 1..NCols : ColumnEntries(pages, c) = StripeAll(schema, ColPath(c), recs))
       /\ Chk("C03", "LevelsBounded",
              full => \A i \in 1..Len(pages) :
                 /\ \A j \in 1..Len(pages[i].reps) : pages[i].reps[j] <= cols[pages[i].col].maxrep
                 /\ \A j \in 1..Len(pages[i].defs) : pages[i].defs[j] <= cols[pages[i].col].maxdef)
       \* the value section of a page holds the non-null values of its entries and nothing else (no placeholder for a null,
       \* no trailing bytes): header sizes, level sections and the PLAIN values add up exactly
       /\ Chk("C03", "ValueSectionExact",
              full => \A i \in 1..Len(pages) :
                 /\ pages[i].datalen = pages[i].replen + pages[i].deflen + pages[i].vallen
                 /\ Len(pages[i].toks) = pages[i].nonnull)
       /\ Chk("C12", "NullCountExact", \A i \in 1..Len(pages) : StatsNullCount(pages[i]))
       /\ Chk("C12", "MinMaxSound", \A i \in 1..Len(pages) : StatsSound(pages[i]))
       /\ Chk("C12", "MinMaxAbsentWithoutValues", \A i \in 1..Len(pages) : StatsAbsentWhenEmpty(pages[i]))
       /\ snk' = snk \o (IF Ev.orphan > 0 THEN << Seg("orphan", Ev.orphan, wc + 1, 0, 0, 0, 0) >> ELSE <<>>)
                     \o PageSegs(pages, wc + 1)
       /\ clean' = (clean /\ Ev.problems = <<>>)
       /\ Chk("HARNESS", "OffsetsAddUp",
              /\ clean => Sum([i \in 1..Len(snk) |-> snk[i].len]) = Ev.start
              /\ Ev.problems = <<>> =>
                   Ev.start + Ev.orphan + Sum([i \in 1..Len(pages) |-> pages[i].hlen + pages[i].clen]) = Ev.end)
       /\ batches' = IF Len(recs) > 0 THEN Append(batches, recs) ELSE batches
       \* diagnostic only (never a verdict): the faithful model of the page chain (Layout.tla: pages of maxPage records,
       \* then the remainder, the same split for every column) still describes what the code does
       /\ (IF Ev.problems = <<>> /\ Len(recs) > 0 /\
               \E c \in 1..NCols : SelectSeq([i \in 1..Len(pages) |-> IF pages[i].col = c THEN pages[i].nrecs ELSE 0], LAMBDA x : x > 0)
                                     # ChainSplit(Len(recs), maxPage)
            THEN PrintT(<<"DRIFT", caseId, l, "PageSplitDiffersFromLayoutModel">>) ELSE TRUE)
       \* Layout.tla: every page is two sink writes (header, body)
       /\ (IF Ev.problems = <<>> /\ Ev.nsink # 2 * Len(pages)
            THEN PrintT(<<"DRIFT", caseId, l, "SinkWritesPerPageDifferFromLayoutModel">>) ELSE TRUE)
  /\ UNCHANGED <<caseId, schema, cols, maxPage, codecN, faultK, rowsTab>>

\* ---------------------------------------------------------------- Close
FooterVal(f) ==
  [numRows |-> f.numrows,
   rgs |-> [k \in 1..Len(f.rgs) |->
             [rows |-> f.rgs[k].numrows, tbs |-> f.rgs[k].tbs,
              cols |-> [c \in 1..Len(f.rgs[k].cols) |->
                         LET ch == f.rgs[k].cols[c] IN
                         [off |-> ch.dpo, fo |-> ch.fo, bytes |-> ch.tc, ubytes |-> ch.tu,
                          nvals |-> ch.nvals, codec |-> ch.codec]]]]]

DotJoin(names) == FoldLeft(LAMBDA acc, n : IF acc = "" THEN n ELSE acc \o "." \o n, "", names)

ChunksMatchLeaves(f) ==
  \A k \in 1..Len(f.rgs) :
     /\ Len(f.rgs[k].cols) = NCols
     /\ \A c \in 1..NCols : c <= Len(f.rgs[k].cols) =>
          /\ f.rgs[k].cols[c].path = DotJoin(cols[c].path)
          /\ f.rgs[k].cols[c].type = cols[c].type

\* the footer-directed walk (a reader that knows only the format) finds exactly
\* the pages the writer emitted for that chunk
WalkFindsPages(f, s) ==
  \A k \in 1..Len(f.rgs) :
     k <= Cardinality(WritesWithRowsOf(s)) =>
       LET w == NthOf(WritesWithRowsOf(s), k) IN
       \A c \in 1..Len(f.rgs[k].cols) : c <= NCols =>
          LET ch == f.rgs[k].cols[c]
              P  == SortSeq(SetToSeq(PagesOfChunk(s, w, c)), LAMBDA x, y : x < y) IN
          /\ ch.walkok
          /\ ch.walkoffs = [i \in 1..Len(P) |-> PosIn(s, P[i])]

TClose ==
  /\ More /\ Ev.ev = "Close"
  /\ l' = l + 1
  /\ Chk("C01", "CloseSucceeds", Ev.res = "ok")
  /\ IF Ev.res # "ok"
     THEN UNCHANGED snk
     ELSE
       LET f   == Ev.footer
           n   == Ev.end - Ev.start
           s2  == snk \o << Seg("footer", n - 8, 0, 0, 0, 0, 0),
                            Seg("flen", 4, 0, 0, 0, 0, 0),
                            Seg(IF Ev.tailmagic THEN "magic" ELSE "junk", 4, 0, 0, 0, 0, 0) >> IN
       /\ snk' = s2
       /\ Chk("C02", "FooterDecodes", f.ok)
       /\ Chk("C02", "Framing", f.ok => (FramingOn(s2) /\ f.footeroff = Ev.start))
       /\ Chk("C02", "SchemaIsTree", f.ok => f.treeok)
       /\ Chk("C02", "SchemaMatchesType", f.ok => SchemaMatches(f.schema, schema))
       /\ Chk("C02", "ChunksMatchLeaves", f.ok => ChunksMatchLeaves(f))
       /\ Chk("C02", "FooterTruthful", f.ok => FooterTruthfulOn(snk, FooterVal(f), NCols, codecN))
       /\ Chk("C02", "FooterWalkFindsPages", (f.ok /\ f.treeok) => WalkFindsPages(f, snk))
       /\ Chk("C06", "OneRowGroupPerNonEmptyBatch",
              f.ok => /\ Len(f.rgs) = Len(batches)
                      /\ \A k \in 1..Len(f.rgs) : k <= Len(batches) => f.rgs[k].numrows = Len(batches[k]))
       /\ Chk("C06", "FooterRowCount", f.ok => f.numrows = Len(Expected))
       /\ Chk("C06", "RowGroupsWhereWritten", f.ok => FooterTruthfulOn(snk, FooterVal(f), NCols, codecN))
  /\ UNCHANGED <<caseId, schema, cols, maxPage, codecN, recs, batches, wc, faultK, rowsTab, clean>>

\* ---------------------------------------------------------------- reading back
RowsOf(e) == IF e.rowsid >= 1 /\ e.rowsid <= Len(rowsTab) THEN rowsTab[e.rowsid] ELSE <<"unknown rows id">>
RoundTrip(e) ==
  /\ e.panic = "" /\ e.open = "ok" /\ ~e.haserr
  /\ RowsOf(e) = Expected
  /\ e.rowsrep = Len(Expected) /\ e.nexts = Len(Expected)

TRead ==
  /\ More /\ Ev.ev = "Read"
  /\ l' = l + 1
  /\ CASE Ev.mode = "plain" ->
            /\ Chk("C01", "ReaderDoesNotPanic", Ev.panic = "")
            /\ Chk("C01", "ReaderReportsNoError", Ev.panic = "" => (Ev.open = "ok" /\ ~Ev.haserr))
            /\ Chk("C01", "RowsExact", (Ev.panic = "" /\ Ev.open = "ok" /\ ~Ev.haserr) => RoundTrip(Ev))
            /\ Chk("C06", "ReadBackIsTheWrittenBatches", RoundTrip(Ev))
            /\ Chk("C14", "ExcludedFieldsZero", Ev.exclzero)
       [] Ev.mode = "scanstable" ->
            /\ Chk("C01", "RowsExact", RoundTrip(Ev))
            /\ Chk("C01", "ScannedRecordsStable", Ev.stable)
       [] Ev.mode \in {"chunk", "shortat", "eofdata", "rand"} ->
            Chk("C08", "FragmentationInvariant", RoundTrip(Ev))
       [] Ev.mode = "fault" ->
            /\ Chk("C10", "NoPanic", Ev.panic = "")
            /\ Chk("C10", "ErrorOrAllRowsCorrect",
                   Ev.panic = "" => (Ev.open = "err" \/ Ev.haserr \/ (RowsOf(Ev) = Expected /\ Ev.nexts = Len(Expected))))
       [] Ev.mode = "foreign" ->
            /\ Chk("C04", "ReaderDoesNotPanic", Ev.panic = "")
            /\ Chk("C04", "ReaderAcceptsConformantFile", Ev.panic = "" => (Ev.open = "ok" /\ ~Ev.haserr))
            /\ Chk("C04", "RowsExact", (Ev.panic = "" /\ Ev.open = "ok" /\ ~Ev.haserr) => RoundTrip(Ev))
            \* the same conformant foreign file through a fragmenting source
            /\ Chk("C08", "FragmentationInvariant", "chunk" \in DOMAIN Ev => RoundTrip(Ev))
       [] Ev.mode = "regen" ->
            /\ Chk("C15", "ReaderDoesNotPanic", Ev.panic = "")
            /\ Chk("C15", "RegeneratedReaderReadsTheFile", Ev.panic = "" => (Ev.open = "ok" /\ ~Ev.haserr))
            /\ Chk("C15", "RowsExact", (Ev.panic = "" /\ Ev.open = "ok" /\ ~Ev.haserr) => RoundTrip(Ev))
       [] Ev.mode = "unsup" ->
            /\ Chk("C18", "NoPanic", Ev.panic = "")
            /\ Chk("C18", "UnsupportedFileRefused", Ev.panic = "" => (Ev.open = "err" \/ Ev.haserr))
            /\ Chk("C18", "NothingReadFromUnsupportedChunk", Ev.nexts <= Ev.saferows)
       [] Ev.mode = "trunc" ->
            /\ Chk("C11", "NoPanic", Ev.panic = "")
            /\ Chk("C11", "TruncationRejected", Ev.panic = "" => (Ev.open = "err" \/ Ev.haserr))
       [] OTHER -> TRUE
  /\ UNCHANGED <<caseId, schema, cols, maxPage, codecN, recs, batches, snk, wc, faultK, rowsTab, clean>>

\* a foreign file: the rows it logically holds become the expectation; the
\* harness's own striping (used to produce the file) is re-checked against Dremel!Stripe
TForeign ==
  /\ More /\ Ev.ev = "Foreign"
  /\ l' = l + 1
  /\ Chk("HARNESS", "ForeignFileSelfCheck", Ev.selfcheck = "")
  /\ Chk("HARNESS", "ForeignStriping",
         Ev.nostripe \/ (Len(Ev.entries) = NCols /\ \A c \in 1..NCols : Ev.entries[c] = StripeAll(schema, ColPath(c), Ev.rows)))
  /\ batches' = IF Ev.rows = <<>> THEN <<>> ELSE <<Ev.rows>>
  /\ UNCHANGED <<caseId, schema, cols, maxPage, codecN, recs, snk, wc, faultK, rowsTab, clean>>

\* introspection calls (C16): the library's view of a file versus the independent decode
ChunkPages(e, k) ==   \* independent pages lying inside the k-th chunk (footer order), by offset
  LET chunks == Concat([g \in 1..Len(e.imeta.rgs) |-> e.imeta.rgs[g].cols])
      ch == chunks[k] IN
  SelectSeq([i \in 1..Len(e.ipages) |-> [off |-> e.ioffs[i], h |-> e.ipages[i]]],
            LAMBDA x : x.off >= ch.dpo /\ x.off < ch.dpo + ch.tc)
TIntro ==
  /\ More /\ Ev.ev = "Intro"
  /\ l' = l + 1
  /\ Chk("C16", "NoPanic", Ev.panic = "")
  /\ Chk("C16", "CallsSucceed", Ev.panic = "" => (Ev.metaerr = "" /\ Ev.hdrerr = ""))
  /\ Chk("C16", "FooterEqualsIndependentDecode", (Ev.panic = "" /\ Ev.metaerr = "") => Ev.meta = Ev.imeta)
  /\ Chk("C16", "OneHeaderPerPageInFileOrder", (Ev.panic = "" /\ Ev.metaerr = "" /\ Ev.hdrerr = "") => Ev.hdrs = Ev.ipages)
  /\ Chk("C16", "HeadersFromChunkOffsets",
         (Ev.panic = "" /\ Ev.metaerr = "") =>
           \A k \in 1..Len(Ev.atchunk) :
              /\ Ev.atchunk[k].err = ""
              /\ Ev.atchunk[k].hdrs = [i \in 1..Len(ChunkPages(Ev, k)) |-> ChunkPages(Ev, k)[i].h])
  /\ Chk("C16", "HeadersForPartialCounts",
         (Ev.panic = "" /\ Ev.metaerr = "") =>
           \A k \in 1..Len(Ev.atpartial) : Ev.atpartial[k].err = "" /\ Ev.atpartial[k].hdrs = Ev.atpartial[k].want)
  /\ Chk("C16", "HeadersFromPageOffsets",
         (Ev.panic = "" /\ Ev.metaerr = "") =>
           \A k \in 1..Len(Ev.atpage) : Ev.atpage[k].err = "" /\ Ev.atpage[k].hdrs = Ev.atpage[k].want)
  \* the same answers from one reader used for several calls in a row, starting at an arbitrary position
  /\ Chk("C16", "AnswersIndependentOfReaderPositionAndEarlierCalls",
         (Ev.panic = "" /\ Ev.metaerr = "" /\ Ev.hdrerr = "" /\ "seq" \in DOMAIN Ev) =>
           /\ Ev.seq.err = ""
           /\ Ev.seq.metaafter = Ev.imeta /\ Ev.seq.meta2 = Ev.imeta
           /\ Ev.seq.hdrs1 = Ev.ipages /\ Ev.seq.hdrs2 = Ev.ipages /\ Ev.seq.hdrs3 = Ev.ipages /\ Ev.seq.hdrs1again = Ev.ipages)
  \* the independent walk itself agrees with what the writer was observed to emit
  /\ Chk("HARNESS", "WalkMatchesSink", Ev.foreign \/ Len(Ev.ipages) = Cardinality(HdrIdxOf(snk)))
  /\ UNCHANGED <<caseId, schema, cols, maxPage, codecN, recs, batches, snk, wc, faultK, rowsTab, clean>>

\* schedule replay (C13): instances under a prescribed interleaving versus their solo runs
TSched ==
  /\ More /\ Ev.ev = "Sched"
  /\ l' = l + 1
  /\ Chk("HARNESS", "PoolHandsBackLastBuffer", Ev.pooltest)
  /\ Chk("C13", "NonInterference", NonInterferenceOn(Ev.out))
  \* in the reference process every instance ran alone twice, the second time after all the others: same output both times
  /\ Chk("C13", "SoloRunRepeatsAfterOtherInstances", Ev.unstable = <<>>)
  /\ UNCHANGED <<caseId, schema, cols, maxPage, codecN, recs, batches, snk, wc, faultK, rowsTab, clean>>
TStress ==
  /\ More /\ Ev.ev = "Stress"
  /\ l' = l + 1
  /\ Chk("C13", "ConcurrentRunsEqualSoloRuns", Ev.nbad = 0 /\ Ev.runs > 0)
  /\ UNCHANGED <<caseId, schema, cols, maxPage, codecN, recs, batches, snk, wc, faultK, rowsTab, clean>>

\* the logical rows of a file that is only read in this case (C15)
TExpect ==
  /\ More /\ Ev.ev = "Expect"
  /\ l' = l + 1
  /\ Chk("C15", "WrittenRowsFitTheRegeneratedStruct", Ev.shapeerr = "")
  /\ batches' = IF Ev.rows = <<>> THEN <<>> ELSE <<Ev.rows>>
  /\ UNCHANGED <<caseId, schema, cols, maxPage, codecN, recs, snk, wc, faultK, rowsTab, clean>>
\* C15: the struct regenerated from a file has the columns, nesting, optionality and types of the struct that wrote it
TRegen ==
  /\ More /\ Ev.ev = "Regen"
  /\ l' = l + 1
  /\ Chk("C15", "RegenerationSucceeds", Ev.status = "ok")
  /\ Chk("C15", "RegeneratedStructMatches", Ev.status = "ok" => Ev.regen = Regen(Ev.orig))
  /\ UNCHANGED <<caseId, schema, cols, maxPage, codecN, recs, batches, snk, wc, faultK, rowsTab, clean>>
\* C14: the decorated program's file is byte-identical to the plain program's
TPair ==
  /\ More /\ Ev.ev = "Pair"
  /\ l' = l + 1
  /\ Chk("C14", "DecoratedProgramBuilds", Ev.status = "ok")
  /\ Chk("C14", "EffectiveSchemaUnchanged", Ev.status = "ok" => Ev.decoschema = Ev.baseschema)
  /\ Chk("C14", "ByteIdenticalFiles", Ev.status = "ok" => Ev.same)
  /\ UNCHANGED <<caseId, schema, cols, maxPage, codecN, recs, batches, snk, wc, faultK, rowsTab, clean>>

\* the command line tool's -metadata / -pageheaders output (C16), projected like the independent decode
TCli ==
  /\ More /\ Ev.ev = "Cli"
  /\ l' = l + 1
  /\ Chk("C16", "CliRuns", Ev.err = "")
  /\ Chk("C16", "CliMetadataEqualsIndependentDecode", Ev.err = "" => (Ev.meta = Ev.imeta /\ Ev.meta2 = Ev.imeta))
  /\ Chk("C16", "CliPageHeadersEqualIndependentWalk", Ev.err = "" => Ev.hdrs = Ev.ipages)
  /\ UNCHANGED <<caseId, schema, cols, maxPage, codecN, recs, batches, snk, wc, faultK, rowsTab, clean>>

\* a workload too large for one event per record (>= 65 536 records, values per page, level entries): the driver
\* generates record i from i, compares the read-back in Go and reports one summary event
TBulk ==
  /\ More /\ Ev.ev = "Bulk"
  /\ l' = l + 1
  /\ Chk("C01", "BulkWriteSucceeds", Ev.werr = "" /\ Ev.pan = "")
  /\ Chk("C01", "BulkRowsExact",
         (Ev.werr = "" /\ Ev.pan = "") => (Ev.rerr = "" /\ Ev.nread = Ev.n /\ Ev.rowsrep = Ev.n /\ Ev.firstbad = -1))
  /\ UNCHANGED <<caseId, schema, cols, maxPage, codecN, recs, batches, snk, wc, faultK, rowsTab, clean>>

\* every strict prefix of a large file (too many for one event each), summarised by the driver
TTruncSweep ==
  /\ More /\ Ev.ev = "TruncSweep"
  /\ l' = l + 1
  /\ Chk("C11", "NoPanic", Ev.npanicked = 0)
  /\ Chk("C11", "TruncationRejected", Ev.naccepted = 0)
  /\ UNCHANGED <<caseId, schema, cols, maxPage, codecN, recs, batches, snk, wc, faultK, rowsTab, clean>>

TRows ==
  /\ More /\ Ev.ev = "Rows"
  /\ l' = l + 1
  /\ Chk("HARNESS", "RowsIdsInOrder", Ev.id = Len(rowsTab) + 1)
  /\ rowsTab' = Append(rowsTab, Ev.rows)
  /\ UNCHANGED <<caseId, schema, cols, maxPage, codecN, recs, batches, snk, wc, faultK, clean>>

\* ---------------------------------------------------------------- sink faults (C09)
TSinkRun ==
  /\ More /\ Ev.ev = "SinkRun"
  /\ faultK' = Ev.k /\ l' = l + 1
  /\ UNCHANGED <<caseId, schema, cols, maxPage, codecN, recs, batches, snk, wc, rowsTab, clean>>

TSinkCall ==
  /\ More /\ Ev.ev = "SinkCall"
  /\ l' = l + 1
  /\ Chk("C09", "NoPanic", Ev.res # "panic")
  /\ Chk("C09", "FaultReported", Ev.hit => Ev.res = "err")
  /\ UNCHANGED <<caseId, schema, cols, maxPage, codecN, recs, batches, snk, wc, faultK, rowsTab, clean>>

\* ---------------------------------------------------------------- other lines
TOther ==
  /\ More /\ Ev.ev \notin {"Reset", "New", "Add", "Write", "Close", "Read", "Rows", "Foreign", "Expect", "Regen", "Pair", "Intro", "Cli", "Sched", "Stress", "SinkRun", "SinkCall", "Bulk", "TruncSweep"}
  /\ l' = l + 1
  /\ Chk("HARNESS", "DriverPanic", Ev.ev # "DriverPanic")
  /\ Chk("HARNESS", "HarnessError", Ev.ev # "HarnessError")
  /\ UNCHANGED <<caseId, schema, cols, maxPage, codecN, recs, batches, snk, wc, faultK, rowsTab, clean>>

TDone == /\ l = Len(Trace) + 1 /\ PrintT(<<"TRACEDONE", Len(Trace)>>) /\ UNCHANGED vars

Next == TReset \/ TNew \/ TAdd \/ TWrite \/ TClose \/ TRead \/ TRows \/ TForeign \/ TExpect \/ TRegen \/ TPair \/ TBulk \/ TTruncSweep \/ TIntro \/ TCli \/ TSched \/ TStress \/ TSinkRun \/ TSinkCall \/ TOther \/ TDone
Spec == Init /\ [][Next]_vars

\* every line was consumed: one state per line plus the initial state
AllConsumed == TLCGet("stats").diameter = Len(Trace) + 1
=============================================================================
