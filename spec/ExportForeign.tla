---------------------------- MODULE ExportForeign ----------------------------
(* Case export for C04: the physical choices a foreign writer has for n      *)
(* records - every composition of n (used both for the split into row       *)
(* groups and, independently per column, for the split of a row group into  *)
(* pages at record boundaries).                                             *)
EXTENDS Integers, Sequences, SequencesExt, Json, TLC
CONSTANTS OutFile, MaxRows
RECURSIVE Comps(_)
Comps(n) == IF n = 0 THEN {<<>>} ELSE UNION {{<<k>> \o c : c \in Comps(n - k)} : k \in 1..n}
ASSUME ndJsonSerialize(OutFile, [n \in 1..MaxRows |-> [n |-> n, comps |-> SetToSeq(Comps(n))]])
=============================================================================
