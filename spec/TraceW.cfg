CONSTANTS TraceFile = "trace.ndjson"
  Props = {"C01","C02","C03","C06","C08","C09","C10","C11","C12","C14","HARNESS"}
SPECIFICATION Spec
POSTCONDITION AllConsumed
CHECK_DEADLOCK FALSE
