------------------------------ MODULE ExportPat ------------------------------
(* Case export for C12: every page pattern, i.e. every sequence of length   *)
(* 1..MaxLen over {null (-1), rank 0 .. NTok-1}.                            *)
EXTENDS Integers, Sequences, SequencesExt, Json, TLC
CONSTANTS OutFile, MaxLen, NTok
Pats == UNION {[1..n -> (-1)..(NTok - 1)] : n \in 1..MaxLen}
ASSUME ndJsonSerialize(OutFile, << [patterns |-> SetToSeq(Pats)] >>)
=============================================================================
