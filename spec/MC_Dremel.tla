----------------------------- MODULE MC_Dremel -----------------------------
(* Design-level check of the striping definition: over every schema of the *)
(* bounded grammar and every record structure with list lengths <= L,      *)
(* assembly inverts striping, levels are bounded and sibling columns agree. *)
EXTENDS Dremel
CONSTANTS MaxNodes, MaxDepth, MaxKids, MaxList
VARIABLES shape, rec
vars == <<shape, rec>>

Init == /\ shape \in Shapes(MaxNodes, MaxDepth, MaxKids)
        /\ rec \in Records(shape, MaxList)
Next == UNCHANGED vars
Spec == Init /\ [][Next]_vars

R == RenumberRecord(shape, rec)
InvRoundTrip == RoundTrips(shape, R)
InvLevels    == LevelsBounded(shape, R)
InvSiblings  == SiblingsConsistent(shape, R)
\* negative control: a striping that forgets the inherited repetition level
BrokenInv == \A i \in 1..Len(LeafPaths(shape)) :
               LET es == Stripe(shape, LeafPaths(shape)[i], R) IN \A j \in 1..Len(es) : es[j][1] = 0
=============================================================================
