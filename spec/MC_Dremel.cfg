CONSTANTS MaxNodes = 3 MaxDepth = 3 MaxKids = 3 MaxList = 2
SPECIFICATION Spec
INVARIANTS InvRoundTrip InvLevels InvSiblings
CHECK_DEADLOCK FALSE
