------------------------------- MODULE Bitpack -------------------------------
(***************************************************************************)
(* Bit packing of eight w-bit values (C17), straight from the text of the  *)
(* Parquet specification: values are packed from the least significant    *)
(* bit of each byte to the most significant bit, in the order the values   *)
(* come (the "LSB first, little endian" layout of the RLE/bit-packed       *)
(* hybrid).  NOT a transcription of the generated tables in bitpack.go.    *)
(***************************************************************************)
EXTENDS Integers, Sequences, SequencesExt

RECURSIVE Pow2(_)
Pow2(n) == IF n = 0 THEN 1 ELSE 2 * Pow2(n - 1)

\* the w bits of v, least significant first
BitsOf(v, w) == [j \in 1..w |-> (v \div Pow2(j - 1)) % 2]
\* the 8*w bit string of a group
AllBits(vals, w) == FoldLeft(LAMBDA acc, i : acc \o BitsOf(vals[i], w), <<>>, [i \in 1..Len(vals) |-> i])
\* byte k (1-based) of a bit string: bit j of the byte has weight 2^(j-1)
ByteAt(bits, k) == FoldLeft(LAMBDA acc, j : acc + bits[8 * (k - 1) + j] * Pow2(j - 1), 0, [j \in 1..8 |-> j])

Pack(vals, w) == LET b == AllBits(vals, w) IN [k \in 1..w |-> ByteAt(b, k)]

\* defined independently of Pack: value i is bits w(i-1)+1 .. wi of the
\* little-endian bit string of the bytes
BitOfBytes(bytes, n) == (bytes[((n - 1) \div 8) + 1] \div Pow2((n - 1) % 8)) % 2
Unpack(bytes, w) ==
  [i \in 1..8 |-> FoldLeft(LAMBDA acc, j : acc + BitOfBytes(bytes, w * (i - 1) + j) * Pow2(j - 1), 0, [j \in 1..w |-> j])]

Groups(w) == [1..8 -> 0..(Pow2(w) - 1)]
ByteGroups(w) == [1..w -> 0..255]
=============================================================================
