----------------------------- MODULE MC_Bitpack -----------------------------
(* every group of eight w-bit values and every w-byte group: the two        *)
(* independently defined operators are mutually inverse, and Pack is the    *)
(* sum of its single-position contributions (the decomposition used to      *)
(* argue about w = 4, whose 2^32 groups TLC cannot enumerate).              *)
EXTENDS Bitpack, FiniteSets, TLC
CONSTANTS Widths,       \* widths explored
          FullUpTo,     \* widths <= FullUpTo: every group and every byte group
          Support,      \* wider: groups with at most Support non-zero positions
          ByteSupport,  \* wider: byte groups with at most ByteSupport non-zero bytes
          BreakUnpack   \* negative control
VARIABLES w, vals, bytes
vars == <<w, vals, bytes>>
Sparse(n, max, s) ==   \* functions 1..n -> 0..max with at most s non-zero positions
  UNION {{[i \in 1..n |-> IF i \in S THEN f[i] ELSE 0] : f \in [S -> 1..max]} :
           S \in {T \in SUBSET (1..n) : Cardinality(T) <= s}}
GroupsOf(x) == IF x <= FullUpTo THEN Groups(x) ELSE Sparse(8, Pow2(x) - 1, Support)
BytesOf(x)  == IF x <= FullUpTo THEN ByteGroups(x) ELSE Sparse(x, 255, ByteSupport)
Init == /\ w \in Widths
        /\ \/ (vals \in GroupsOf(w) /\ bytes = Pack(vals, w))
           \/ (bytes \in BytesOf(w) /\ vals = Unpack(bytes, w))
Next == UNCHANGED vars
Spec == Init /\ [][Next]_vars
U(b, x) == IF BreakUnpack THEN [Unpack(b, x) EXCEPT ![3] = (@ + IF b[1] >= 128 THEN 1 ELSE 0) % Pow2(x)] ELSE Unpack(b, x)
UnpackPack == U(Pack(vals, w), w) = vals
PackUnpack == Pack(U(bytes, w), w) = bytes
InRange == \A i \in 1..8 : vals[i] \in 0..(Pow2(w) - 1)
\* Pack(v) = sum over positions of Pack(v restricted to that position): supports are disjoint
Single(v, i) == [j \in 1..8 |-> IF j = i THEN v[i] ELSE 0]
Decomposes == Pack(vals, w) = [k \in 1..w |-> FoldLeft(LAMBDA acc, i : acc + Pack(Single(vals, i), w)[k], 0, [i \in 1..8 |-> i])]
=============================================================================
