----------------------------- MODULE SharedTable -----------------------------
(***************************************************************************)
(* Reader instances over a process-wide, lazily grown lookup table (C13).  *)
(*                                                                         *)
(* Pool.tla covers buffers that are handed from instance to instance.  The *)
(* other kind of state that outlives an instance is a table or cache that  *)
(* every instance READS and that grows on demand: here, per level value v, *)
(* a process-wide sequence "v repeated", from which the decoder of an RLE  *)
(* run (v, n) takes its n levels instead of filling a fresh slice.  Such a *)
(* table is harmless as long as nobody writes into it after it has been    *)
(* published; the model makes the two ways of getting that wrong explicit: *)
(*                                                                         *)
(*   AliasFirstRun   the decoder's output IS the table's prefix when the   *)
(*                   stream starts with a table run (no copy); the next    *)
(*                   run is appended in place, i.e. written into the table *)
(*                   behind the prefix when the table entry is long enough *)
(*                   (a Go slice keeps the capacity of what it was cut     *)
(*                   from) - seeded change S150                            *)
(*   GrowInPlace     growing an entry rewrites it from the current         *)
(*                   reader's point of view (fills it with the value being *)
(*                   decoded NOW, whatever entry it is) - the "last one    *)
(*                   wins" cache                                           *)
(*                                                                         *)
(* A stream is a sequence of runs <<v, n>>.  One step of an instance        *)
(* decodes one run.  Instances run one after the other or interleaved;     *)
(* whatever an earlier instance left in the table is the next one's        *)
(* starting point, so "history of the process" needs no extra variable.    *)
(***************************************************************************)
EXTENDS Integers, Sequences, FiniteSets, TLC

CONSTANTS Inst,           \* reader instances (a set of positive integers)
          Vals,           \* level values
          MaxRun,         \* longest run
          MaxRuns,        \* runs per stream
          AliasFirstRun,  \* deviation switch
          GrowInPlace     \* deviation switch

VARIABLES stream,   \* stream[i]: the runs instance i has to decode (chosen in Init)
          pos,      \* pos[i]: next run
          out,      \* out[i]: levels decoded so far
          view,     \* view[i]: 0, or v when out[i] still IS the prefix of tbl[v] (aliased, deviation only)
          tbl       \* tbl[v]: the shared entry for v

vars == <<stream, pos, out, view, tbl>>

Runs == Vals \X (1..MaxRun)
Streams == UNION {[1..k -> Runs] : k \in 1..MaxRuns}
Rep(v, n) == [k \in 1..n |-> v]

Init == /\ stream \in [Inst -> Streams]
        /\ pos = [i \in Inst |-> 1]
        /\ out = [i \in Inst |-> <<>>]
        /\ view = [i \in Inst |-> 0]
        /\ tbl = [v \in Vals |-> <<>>]

\* the entry for v after making sure it holds at least n levels
Grown(v, n) ==
  IF Len(tbl[v]) >= n THEN tbl
  ELSE IF GrowInPlace
       THEN [w \in Vals |-> IF Len(tbl[w]) >= n THEN tbl[w] ELSE Rep(v, n)]     \* every short entry is "refreshed" with v
       ELSE [tbl EXCEPT ![v] = Rep(v, n)]

Decode(i) ==
  /\ pos[i] <= Len(stream[i])
  /\ LET v == stream[i][pos[i]][1]
         n == stream[i][pos[i]][2]
         t == Grown(v, n)
         run == SubSeq(t[v], 1, n)                     \* what the table says v repeated n times is
     IN IF AliasFirstRun /\ pos[i] = 1
        THEN \* out IS the table prefix
             /\ out' = [out EXCEPT ![i] = run] /\ view' = [view EXCEPT ![i] = v] /\ tbl' = t
        ELSE IF view[i] # 0 /\ Len(out[i]) + n <= Len(t[view[i]])
        THEN \* append in place: the run is written into the aliased entry behind the prefix
             LET w == view[i]
                 e == [k \in 1..Len(t[w]) |-> IF k > Len(out[i]) /\ k <= Len(out[i]) + n THEN run[k - Len(out[i])] ELSE t[w][k]]
             IN /\ tbl' = [t EXCEPT ![w] = e]
                /\ out' = [out EXCEPT ![i] = SubSeq(e, 1, Len(out[i]) + n)]
                /\ UNCHANGED view
        ELSE \* append reallocates (or out was a private copy all along)
             /\ out' = [out EXCEPT ![i] = out[i] \o run] /\ view' = [view EXCEPT ![i] = 0] /\ tbl' = t
  /\ pos' = [pos EXCEPT ![i] = pos[i] + 1]
  /\ UNCHANGED stream

Next == \E i \in Inst : Decode(i)
Spec == Init /\ [][Next]_vars

RECURSIVE Flat(_)
Flat(rs) == IF rs = <<>> THEN <<>> ELSE Rep(Head(rs)[1], Head(rs)[2]) \o Flat(Tail(rs))

\* C13: what an instance decodes depends on its own stream only
OwnOutput == \A i \in Inst : out[i] = Flat(SubSeq(stream[i], 1, pos[i] - 1))
\* the table only ever says "v repeated"
TableTruthful == \A v \in Vals : \A k \in 1..Len(tbl[v]) : tbl[v][k] = v
TypeOK == /\ \A i \in Inst : pos[i] \in 1..(MaxRuns + 1)
          /\ \A v \in Vals : Len(tbl[v]) <= MaxRun
=============================================================================
