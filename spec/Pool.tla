--------------------------------- MODULE Pool ---------------------------------
(***************************************************************************)
(* Independent writer instances over a shared buffer pool (C13).           *)
(*                                                                         *)
(* The code's discipline, per page write (fields.go DoWrite and the        *)
(* generated Write methods): Get a buffer from the process-wide pool, fill *)
(* it, write the page header to the sink, write the body (the buffer's     *)
(* bytes) to the sink, Put the buffer back.  Sink writes are the points    *)
(* where another goroutine can run (the sink may block).  Buffers have      *)
(* identity and tagged content [owner, epoch]; Get may return any free      *)
(* buffer, with whatever a previous user (this process' history) left in    *)
(* it, so every prior pool content is an initial state.                     *)
(*                                                                         *)
(* PutBeforeBodyWrite is the deviation "the buffer is released after the    *)
(* header write, before its bytes have been handed to the sink".            *)
(*                                                                         *)
(* Error path: the header write of an instance in MayFail may fail; the    *)
(* instance then gives its buffer back and stops.  DoublePutOnError is the *)
(* deviation "the error path releases a buffer that was already released / *)
(* releases it twice": the pool is a BAG of buffers, so the same buffer can *)
(* then be handed to two page writes at once.                               *)
(***************************************************************************)
EXTENDS PoolProps

CONSTANTS Inst,                \* instances (a set of positive integers)
          NPages,              \* page writes per instance
          NBuf,                \* buffers the pool can hand out
          PutBeforeBodyWrite,  \* deviation switch
          MayFail,             \* instances whose header write may fail (subset of Inst)
          DoublePutOnError,    \* deviation switch
          MaxSwitches          \* bound on context switches

VARIABLES pc, page, held, free, content, out, last, switches

vars == <<pc, page, held, free, content, out, last, switches>>

Bufs == 1..NBuf
Clean == [owner |-> 0, epoch |-> 0]
Dirty == [owner |-> 99, epoch |-> 99]

Init == /\ pc = [i \in Inst |-> "get"] /\ page = [i \in Inst |-> 1] /\ held = [i \in Inst |-> 0]
        /\ free = [b \in Bufs |-> 1]
        /\ content \in [Bufs -> {Clean, Dirty}]      \* any prior history of the process
        /\ out = [i \in Inst |-> <<>>] /\ last = 0 /\ switches = 0

Sched(i) == /\ (last # 0 /\ last # i) => switches < MaxSwitches
            /\ last' = i
            /\ switches' = IF last # 0 /\ last # i THEN switches + 1 ELSE switches

Get(i) == /\ pc[i] = "get" /\ page[i] <= NPages /\ Sched(i)
          /\ \E b \in Bufs : free[b] > 0 /\ held' = [held EXCEPT ![i] = b] /\ free' = [free EXCEPT ![b] = @ - 1]
          /\ pc' = [pc EXCEPT ![i] = "fill"] /\ UNCHANGED <<page, content, out>>
Fill(i) == /\ pc[i] = "fill" /\ Sched(i)
           /\ content' = [content EXCEPT ![held[i]] = [owner |-> i, epoch |-> page[i]]]
           /\ pc' = [pc EXCEPT ![i] = "hdr"] /\ UNCHANGED <<page, held, free, out>>
\* header write: a yield point; with the deviation the buffer is released right after it
Hdr(i) == /\ pc[i] = "hdr" /\ Sched(i)
          /\ pc' = [pc EXCEPT ![i] = "body"]
          /\ free' = IF PutBeforeBodyWrite THEN [free EXCEPT ![held[i]] = @ + 1] ELSE free
          /\ UNCHANGED <<page, held, content, out>>
\* the header write fails: the instance releases its buffer (twice with the deviation) and stops
HdrFails(i) == /\ pc[i] = "hdr" /\ i \in MayFail /\ Sched(i)
               /\ free' = [free EXCEPT ![held[i]] = @ + (IF DoublePutOnError THEN 2 ELSE 1)]
               /\ held' = [held EXCEPT ![i] = 0]
               /\ pc' = [pc EXCEPT ![i] = "failed"]
               /\ UNCHANGED <<page, content, out>>
\* body write: the sink copies whatever the buffer holds NOW
Body(i) == /\ pc[i] = "body" /\ Sched(i)
           /\ out' = [out EXCEPT ![i] = Append(@, content[held[i]])]
           /\ pc' = [pc EXCEPT ![i] = "put"] /\ UNCHANGED <<page, held, free, content>>
Put(i) == /\ pc[i] = "put" /\ Sched(i)
          /\ free' = [free EXCEPT ![held[i]] = @ + 1] /\ held' = [held EXCEPT ![i] = 0]
          /\ page' = [page EXCEPT ![i] = @ + 1] /\ pc' = [pc EXCEPT ![i] = "get"]
          /\ UNCHANGED <<content, out>>

Next == \E i \in Inst : Get(i) \/ Fill(i) \/ Hdr(i) \/ HdrFails(i) \/ Body(i) \/ Put(i)
Spec == Init /\ [][Next]_vars

\* ---- the property (definition in PoolProps, shared with the trace specification)
NonInterference == NonInterferenceOn(out)
NoSharedOwnership == \A i, j \in Inst : (i # j /\ held[i] # 0 /\ ~PutBeforeBodyWrite /\ ~DoublePutOnError) => held[i] # held[j]
TypeOK == /\ \A i \in Inst : page[i] \in 1..(NPages + 1) /\ held[i] \in 0..NBuf
          /\ \A b \in Bufs : free[b] \in 0..(NPages * Cardinality(Inst) + 2)
=============================================================================
