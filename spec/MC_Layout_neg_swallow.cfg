CONSTANTS MaxPage = 2 NCols = 2 MaxOps = 5
  FaultAt = {1,2,3,4,5,6,7,8,9,10,11,12}
  EmptyWriteEmitsPages = FALSE FooterSkipsDroppedBytes = FALSE FooterCountsAddedRows = FALSE SwallowSinkError = TRUE
SPECIFICATION Spec
INVARIANTS FaultReported
CHECK_DEADLOCK FALSE
