----------------------------- MODULE ExportHist -----------------------------
(* Case export: every call history over {Add, Write} up to MaxLen calls     *)
(* (Close is implicit at the end).                                          *)
EXTENDS Integers, Sequences, SequencesExt, Json, TLC
CONSTANTS OutFile, MaxLen
Words == UNION {[1..n -> {"a", "w"}] : n \in 0..MaxLen}
ASSUME ndJsonSerialize(OutFile, << [words |-> SetToSeq(Words)] >>)
=============================================================================
