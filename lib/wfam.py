"""Shared machinery of the checks that drive the generated writer/reader:
case export by TLC, execution on the real code, trace validation by TLC,
confirmation of every verdict in a fresh process."""
import concurrent.futures as cf
import json
import os

from vlib import (NCPU, Check, HarnessError, cfg, decorate, farm, fixed_shapes, judge, log, model_check, render,
                  run_driver, schema_of, shape_key, tlc, tlc_ok)


# --------------------------------------------------------------------------- TLC exporters

def _export(module, consts, outname, seed=None, tag="export", files=None, timeout=900):
    lines = ["CONSTANTS"] + ["  %s = %s" % (k, v) for k, v in consts.items()]
    res = tlc(module, "\n".join(lines) + "\n", files=files, workers=1, timeout=timeout, tag=tag, seed=seed)
    if not tlc_ok(res):
        raise HarnessError("export %s failed:\n%s" % (module, res["out"][-2500:]))
    p = os.path.join(res["dir"], outname)
    if not os.path.exists(p):
        raise HarnessError("export %s wrote no %s" % (module, outname))
    rows = [json.loads(l) for l in open(p) if l.strip()]
    return rows


def export_shapes(max_nodes, max_depth=3, max_kids=3):
    rows = _export("ExportShapes", {"OutFile": '"shapes.ndjson"', "MaxNodes": max_nodes, "MaxDepth": max_depth,
                                    "MaxKids": max_kids}, "shapes.ndjson", tag="shapes")
    shapes = rows[0]["shapes"]
    if rows[0]["count"] != len(shapes):
        raise HarnessError("shape export is incomplete")
    # deterministic order (TLC's set order is deterministic, but make it explicit)
    shapes.sort(key=lambda f: json.dumps(f, sort_keys=True))
    return shapes


def export_records(schemas, max_list, cap, seed):
    """schemas: list of (id, schema).  Returns {id: {exhaustive, count, recs}}."""
    out = {}
    B = 200
    for i in range(0, len(schemas), B):
        part = schemas[i:i + B]
        data = "".join(json.dumps({"id": sid, "schema": sch}) + "\n" for sid, sch in part)
        rows = _export("ExportRecs", {"SchemaFile": '"schemas.ndjson"', "OutFile": '"recs.ndjson"', "MaxList": max_list,
                                      "Cap": cap}, "recs.ndjson", seed=seed, tag="recs", files={"schemas.ndjson": data})
        for r in rows:
            out[r["id"]] = r
    return out


def export_histories(max_len):
    rows = _export("ExportHist", {"OutFile": '"hist.ndjson"', "MaxLen": max_len}, "hist.ndjson", tag="hist")
    words = rows[0]["words"]
    words.sort(key=lambda w: (len(w), w))
    return ["".join(w) for w in words]


# --------------------------------------------------------------------------- programs and cases

class Program:
    def __init__(self, key, src, forest=None):
        self.key, self.src, self.forest = key, src, forest
        self.build = None
        self.schema = None
        self.cols = None
        self.cases = []
        self.events = []


def universe_programs(forests, toff_fn=None, shared_names=False):
    progs = []
    for i, f in enumerate(forests):
        toff = toff_fn(i, f) if toff_fn else i
        d = decorate(f, toff, shared_names)
        progs.append(Program(shape_key(d), render(d), d))
    return progs


def fixed_programs(names=None):
    return [Program(k, src) for k, src in fixed_shapes(names)]


def build_programs(progs):
    fm = farm()
    res = fm.build_many([(p.key, p.src) for p in progs])
    for p, r in zip(progs, res):
        p.build = r
    return progs


def load_schemas(progs):
    def one(p):
        if p.build["status"] == "ok":
            p.schema, p.cols = schema_of(p.build)
    with cf.ThreadPoolExecutor(max_workers=NCPU) as ex:
        list(ex.map(one, progs))


def run_programs(progs, tag, timeout=900, env_extra=None, drop=None):
    """Runs every program's cases on the real code (parallel).  Case ids are
    rewritten to '<program index>:<case index>'."""
    def one(ip):
        i, p = ip
        if p.build["status"] != "ok" or not p.cases:
            p.events = []
            return
        cases = []
        for j, c in enumerate(p.cases):
            c = dict(c)
            c["id"] = "%d:%d" % (i, j)
            cases.append(c)
        if not os.path.exists(os.path.join(p.build["dir"], "drv")):
            p.build = farm().build(p.key, p.src)
        p.events = run_driver(p.build, {"cases": cases}, tag, timeout=timeout, env_extra=env_extra)
        if drop if drop is not None else len(progs) > 400:
            farm().drop_binary(p.build)      # thousands of 4 MB binaries do not fit the disk; rebuilt on demand
            for fn in ("job_%s.json" % tag, "ev_%s.ndjson" % tag):
                try:
                    os.remove(os.path.join(p.build["dir"], fn))
                except OSError:
                    pass
    with cf.ThreadPoolExecutor(max_workers=NCPU) as ex:
        list(ex.map(one, list(enumerate(progs))))


def ensure_built(p):
    if p.build is None or (p.build["status"] == "ok" and not os.path.exists(os.path.join(p.build["dir"], "drv"))):
        p.build = farm().build(p.key, p.src)
    return p.build


def build_and_run(progs, tag, timeout=900, drop=True):
    """Streaming variant for large program sets: generate + compile + run + drop the binary, per program."""
    fm = farm()

    def one(ip):
        i, p = ip
        p.build = fm.build(p.key, p.src)
        p.events = []
        if p.build["status"] != "ok" or not p.cases:
            return
        cases = []
        for j, c in enumerate(p.cases):
            c = dict(c)
            c["id"] = "%d:%d" % (i, j)
            cases.append(c)
        p.events = run_driver(p.build, {"cases": cases}, tag, timeout=timeout)
        if drop:
            fm.drop_binary(p.build)
            for fn in ("job_%s.json" % tag, "ev_%s.ndjson" % tag):
                try:
                    os.remove(os.path.join(p.build["dir"], fn))
                except OSError:
                    pass
    with cf.ThreadPoolExecutor(max_workers=NCPU) as ex:
        list(ex.map(one, list(enumerate(progs))))


def split_cases(events):
    """[(case id, [events])]"""
    out, cur = [], None
    for e in events:
        if e.get("ev") == "Reset":
            cur = (e["case"], [e])
            out.append(cur)
        elif cur is not None:
            cur[1].append(e)
    return out


def ops_of(history, recs):
    """history: string over a/w; recs: iterator of abstract records."""
    ops = []
    it = iter(recs)
    for ch in history:
        if ch == "a":
            ops.append({"op": "add", "rec": next(it)})
        else:
            ops.append({"op": "write"})
    ops.append({"op": "close"})
    return ops


def judge_programs(ck, progs, props, tag, describe=None, max_report=12, confirm=True, confirm_program=False, env_extra=None):
    """Trace validation of everything the programs produced; every verdict is
    confirmed by re-running its case in a fresh process before it is reported.
    Returns judge stats."""
    events = []
    for p in progs:
        events += p.events
    died = [e for e in events if e.get("ev") == "DriverDied"]
    events = [e for e in events if e.get("ev") != "DriverDied"]
    verdicts, stats = judge(events, props, tag=tag)
    ck.add("traces_validated_against_impl", stats["cases"])
    ck.add("trace_events", stats["events"])
    ck.add("judge_states", stats["tlc_states"])
    ck.add("spec_drift", stats.get("drift", 0))
    harness = [v for v in verdicts if v["prop"] == "HARNESS"]
    if harness:
        raise HarnessError("trace judge reported harness inconsistencies: %s" % harness[:5])
    # group by (program, case)
    by_case = {}
    for v in verdicts:
        if v["prop"] not in props:
            continue
        by_case.setdefault(v["case"], []).append(v)
    reported = 0
    for cid, vs in sorted(by_case.items()):
        pi, ci = [int(x) for x in cid.split(":")]
        p = progs[pi]
        case = p.cases[ci]
        conj = sorted({v["conjunct"] for v in vs})
        what = "+".join(conj)
        key = describe(p, case) if describe else p.key
        known = ck.is_known(key, what) is not None
        if not known and confirm:
            if reported >= max_report:
                continue
            if confirm_program:
                # the verdict depends on the process history (buffer pools): replay the program's whole job in a fresh process
                cs = []
                for j, c in enumerate(p.cases):
                    c = dict(c)
                    c["id"] = "0:%d" % j
                    cs.append(c)
                evs = [e for e in run_driver(ensure_built(p), {"cases": cs}, tag + "_confirm", timeout=2400, env_extra=env_extra) if e.get("ev") != "DriverDied"]
                v2, _ = judge(evs, props, tag=tag + "c")
                conj2 = sorted({v["conjunct"] for v in v2 if v["prop"] in props and v["case"] == "0:%d" % ci})
            else:
                c2 = dict(case)
                c2["id"] = "0:0"
                evs = [e for e in run_driver(ensure_built(p), {"cases": [c2]}, tag + "_confirm", env_extra=env_extra) if e.get("ev") != "DriverDied"]
                v2, _ = judge(evs, props, tag=tag + "c", chunks=1)
                conj2 = sorted({v["conjunct"] for v in v2 if v["prop"] in props})
            if not set(conj) & set(conj2):
                # never a violation; if nothing else is confirmed in this run the check ends with exit 2 (Check.finish)
                ck.cov.setdefault("unreproduced", []).append("verdict %s on %s not reproduced in a fresh process (got %s)" % (conj, key[:300], conj2))
                continue
            reported += 1
        cevs = [e for c, evs in split_cases(p.events) if c == cid for e in evs]
        ck.report(key, what, {"program": p.key, "source": p.src, "case": case, "conjuncts": conj,
                              "events": cevs[:40], "how": "bin/check %s --replay <this file>" % ck.prop})
    if died:
        ck.cov.setdefault("driver_died", []).extend(d["detail"][:300] for d in died[:5])
        attribute_deaths(ck, progs, tag, describe, env_extra)
    return stats, died


FATAL_MARKS = ("fatal error: runtime: out of memory", "fatal error: out of memory", "cannot allocate memory", "fatal error: stack overflow",
               "runtime: goroutine stack exceeds", "fatal error: all goroutines are asleep", "fatal error: runtime: cannot allocate")


def attribute_deaths(ck, progs, tag, describe, env_extra):
    """A driver process that died is never silently ignored.  The case it was executing is re-run alone in a fresh process:
    if the process dies again with a Go runtime fatal error (unbounded allocation, stack overflow, deadlock) the library
    call kills the process on that input - a violation ('ProcessDies') with that case as replay; anything else
    (not reproduced, killed from outside, a panic in the driver's own code) is harness trouble (exit 2)."""
    for pi, p in enumerate(progs):
        dd = [e for e in p.events if e.get("ev") == "DriverDied"]
        if not dd:
            continue
        last = None
        for e in p.events:
            if e.get("ev") == "Reset":
                last = e.get("case")
        if last is None:
            raise HarnessError("driver of %s died before its first case: %s" % (p.key, dd[0]["detail"][-600:]))
        ci = int(str(last).split(":")[1])
        case = p.cases[ci]
        c2 = dict(case)
        c2["id"] = "0:0"
        evs = run_driver(ensure_built(p), {"cases": [c2]}, tag + "_death", timeout=900, env_extra=env_extra)
        again = [e for e in evs if e.get("ev") == "DriverDied"]
        detail = (again[0]["detail"] if again else "") + " || first: " + dd[0]["detail"]
        if again and any(m in again[0]["detail"] for m in FATAL_MARKS) and any(m in dd[0]["detail"] for m in FATAL_MARKS):
            key = describe(p, case) if describe else p.key
            mark = [m for m in FATAL_MARKS if m in again[0]["detail"]][0]
            ck.report(key, "ProcessDies", {"program": p.key, "source": p.src, "case": case, "conjuncts": ["ProcessDies"],
                                           "detail": mark + " ... " + again[0]["detail"][-700:],
                                           "how": "bin/check %s --replay <this file>" % ck.prop})
        else:
            raise HarnessError("driver of %s died on case %s and this is not a reproducible runtime fatal error of the process: %s"
                               % (p.key, last, detail[-900:]))
