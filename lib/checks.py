"""The per-property checks.  Each function decides one property on /repo's
current working tree and writes its evidence file."""
import json
import os

from vlib import Check, HarnessError, log, model_check
from wfam import (build_programs, export_histories, export_records, export_shapes, fixed_programs, judge_programs,
                  load_schemas, ops_of, run_programs, universe_programs)

CODECS = ["uncompressed", "snappy", "gzip"]


def usable(progs):
    return [p for p in progs if p.build["status"] == "ok"]


# =========================================================================== C03
def c03():
    ck = Check("C03", "model_checking")
    q = ck.quick()
    # 1. the striping definition itself: model-checked, with a negative control
    mc = model_check("MC_Dremel", {"MaxNodes": 3 if q else 4, "MaxDepth": 3, "MaxKids": 3, "MaxList": 2},
                     ["InvRoundTrip", "InvLevels", "InvSiblings"], workers=8, timeout=1500, tag="mcdremel")
    ck.cov["states"], ck.cov["transitions"] = mc["distinct"], mc["states"]
    model_check("MC_Dremel", {"MaxNodes": 2, "MaxDepth": 2, "MaxKids": 2, "MaxList": 2}, ["BrokenInv"],
                tag="mcdremelneg", expect_violation="BrokenInv")
    ck.cov["negative_controls"] = ["MC_Dremel/BrokenInv violated as required"]
    # 2. programs: the fixed schema set F and every schema of the bounded grammar
    forests = export_shapes(3 if q else 4)
    progs = fixed_programs() + universe_programs(forests, toff_fn=lambda i, f: i + ck.seed)
    build_programs(progs)
    ok = usable(progs)
    ck.cov["programs_total"], ck.cov["programs_built"] = len(progs), len(ok)
    ck.cov["programs_not_buildable_see_C05"] = len(progs) - len(ok)
    load_schemas(ok)
    # 3. records: every structure with list lengths <= 2 (sampled by TLC when there are too many)
    recs = export_records([(p.key, p.schema) for p in ok], 2, 40 if q else 300, ck.seed)
    exhaustive = True
    for p in ok:
        r = recs[p.key]
        exhaustive = exhaustive and r["exhaustive"]
        rr = r["recs"]
        for page in (1000, 2, 1):
            p.cases.append({"page": page, "codec": CODECS[(len(p.cases) + ck.seed) % 3], "poff": (ck.seed * 7 + len(rr)) % 16,
                            "ops": ops_of("a" * len(rr) + "w", rr)})
        ck.add("evaluations", 3 * len(rr))
    run_programs(ok, "c03")
    nontrivial = set()
    for p in ok:
        for c in p.cases[:1]:
            for o in c["ops"]:
                if o["op"] == "add" and ("[]" in json.dumps(o["rec"]) or any(isinstance(x, list) for x in o["rec"])):
                    nontrivial.add(p.key + json.dumps(o["rec"]))
    ck.cov["distinct_nontrivial"] = len(nontrivial)
    ck.cov["rule"] = ("cases = (program, record) for every program of F and of the bounded grammar and every record structure with "
                      "list lengths <= 2 exported by TLC (ExportRecs; seeded sample when a schema has more than the cap), each "
                      "written with page sizes 1000, 2 and 1; non-trivial = the record has an optional or repeated node (a nil, "
                      "an empty or a non-empty list), counted as distinct (program, record) pairs")
    ck.cov["exhaustive"] = bool(exhaustive)
    for p in ok[:2] + ok[-2:]:
        ck.sample({"program": p.key, "record": p.cases[0]["ops"][min(3, len(p.cases[0]["ops"]) - 3)].get("rec"), "pages": [1000, 2, 1]})
    judge_programs(ck, ok, ["C03", "HARNESS"], "c03")
    ck.assumptions += ["the schema of a program is what Go reflection reports for its Rec type (documented exclusion/embedding rules applied)",
                       "harness/pq (thrift-compact, hybrid, PLAIN decoders) is the independent reader; cross-checked against TLC in C07/C17",
                       "programs parquetgen cannot generate or that do not compile are C05's subject and are skipped here"]
    ck.finish()


CHECKS = {"C03": c03}
