"""The per-property checks.  Each function decides one property on /repo's
current working tree and writes its evidence file."""
import json
import os
import random

from vlib import Check, HarnessError, log, model_check
from wfam import (build_programs, export_histories, export_records, export_shapes, fixed_programs, judge_programs,
                  load_schemas, ops_of, run_programs, universe_programs)

CODECS = ["uncompressed", "snappy", "gzip"]


def usable(progs):
    return [p for p in progs if p.build["status"] == "ok"]


# =========================================================================== C03
def c03():
    ck = Check("C03", "model_checking")
    q = ck.quick()
    # 1. the striping definition itself: model-checked, with a negative control
    mc = model_check("MC_Dremel", {"MaxNodes": 3 if q else 4, "MaxDepth": 3, "MaxKids": 3, "MaxList": 2},
                     ["InvRoundTrip", "InvLevels", "InvSiblings"], workers=8, timeout=1500, tag="mcdremel")
    ck.cov["states"], ck.cov["transitions"] = mc["distinct"], mc["states"]
    model_check("MC_Dremel", {"MaxNodes": 2, "MaxDepth": 2, "MaxKids": 2, "MaxList": 2}, ["BrokenInv"],
                tag="mcdremelneg", expect_violation="BrokenInv")
    ck.cov["negative_controls"] = ["MC_Dremel/BrokenInv violated as required"]
    # 2. programs: the fixed schema set F and every schema of the bounded grammar
    forests = export_shapes(3 if q else 4)
    progs = fixed_programs() + universe_programs(forests, toff_fn=lambda i, f: i + ck.seed)
    build_programs(progs)
    ok = usable(progs)
    ck.cov["programs_total"], ck.cov["programs_built"] = len(progs), len(ok)
    ck.cov["programs_not_buildable_see_C05"] = len(progs) - len(ok)
    load_schemas(ok)
    # 3. records: every structure with list lengths <= 2 (sampled by TLC when there are too many)
    recs = export_records([(p.key, p.schema) for p in ok], 2, 40 if q else 300, ck.seed)
    exhaustive = True
    for p in ok:
        r = recs[p.key]
        exhaustive = exhaustive and r["exhaustive"]
        rr = r["recs"]
        for page in (1000, 2, 1):
            p.cases.append({"page": page, "codec": CODECS[(len(p.cases) + ck.seed) % 3], "poff": (ck.seed * 7 + len(rr)) % 16,
                            "ops": ops_of("a" * len(rr) + "w", rr)})
        # the same records spread over several Write batches of one writer (buffers reused between row groups)
        k = len(rr)
        if k >= 2:
            third = max(1, k // 3)
            for page, hist in ((1000, "a" * (k - k // 2) + "w" + "a" * (k // 2) + "w"),
                               (2, "a" * third + "w" + "a" * third + "w" + "a" * (k - 2 * third) + "w" if k >= 3 else "a" * (k - 1) + "waw")):
                p.cases.append({"page": page, "codec": CODECS[(len(p.cases) + ck.seed) % 3], "poff": (ck.seed * 7 + len(rr) + 1) % 16,
                                "ops": ops_of(hist, rr)})
        ck.add("evaluations", 5 * len(rr))
        # pages whose level streams have 505..511 (and 1009..1015) entries: the last, padded group of a full 63-group run
        if p.key.startswith("fixed:Flat") or p.key.startswith("fixed:BoolHeavy"):
            cyc = rec_cycle(rr, ck.seed + 1)
            for n in ((505, 508, 511) if q else (505, 506, 507, 508, 509, 510, 511, 1009, 1012, 1015)):
                p.cases.append({"page": 2000, "codec": CODECS[n % 3], "poff": n % 16, "ops": ops_of("a" * n + "w", cyc)})
                ck.add("evaluations", n)
    run_programs(ok, "c03")
    nontrivial = set()
    for p in ok:
        for c in p.cases[:1]:
            for o in c["ops"]:
                if o["op"] == "add" and ("[]" in json.dumps(o["rec"]) or any(isinstance(x, list) for x in o["rec"])):
                    nontrivial.add(p.key + json.dumps(o["rec"]))
    ck.cov["distinct_nontrivial"] = len(nontrivial)
    ck.cov["rule"] = ("cases = (program, record) for every program of F and of the bounded grammar and every record structure with "
                      "list lengths <= 2 exported by TLC (ExportRecs; seeded sample when a schema has more than the cap), each "
                      "written with page sizes 1000, 2 and 1 in one batch and spread over two and three Write batches; non-trivial = the record has an optional or repeated node (a nil, "
                      "an empty or a non-empty list), counted as distinct (program, record) pairs")
    ck.cov["exhaustive"] = bool(exhaustive)
    for p in ok[:2] + ok[-2:]:
        ck.sample({"program": p.key, "record": p.cases[0]["ops"][min(3, len(p.cases[0]["ops"]) - 3)].get("rec"), "pages": [1000, 2, 1]})
    judge_programs(ck, ok, ["C03", "HARNESS"], "c03")
    ck.assumptions += ["the schema of a program is what Go reflection reports for its Rec type (documented exclusion/embedding rules applied)",
                       "harness/pq (thrift-compact, hybrid, PLAIN decoders) is the independent reader; cross-checked against TLC in C07/C17",
                       "programs parquetgen cannot generate or that do not compile are C05's subject and are skipped here"]
    ck.finish()


CHECKS = {"C03": c03}


# =========================================================================== shared: histories and layouts
HIST_SCHEMAS = {
    "ReqFirst": "package main\n\ntype Rec struct {\n\tID  int64\n\tOpt *int32\n\tS   string\n\tR   []bool\n}\n",
    "OptFirst": "package main\n\ntype In struct {\n\tA *int64\n\tB []string\n}\n\ntype Rec struct {\n\tOpt *int32\n\tID  int64\n\tG   *In\n}\n",
    # the first column is repeated: its num_values counts list elements, not rows
    "RepFirst": "package main\n\ntype Rec struct {\n\tTags []string\n\tID   int64\n\tN    *int32\n}\n",
}


def hist_programs():
    from wfam import Program
    return [Program("hist:" + k, v) for k, v in HIST_SCHEMAS.items()]


def mc_layout(ck, max_ops, pages=(1, 2, 3)):
    """Model-checks the writer state machine (all Add/Write/Close histories up to
    max_ops calls, every page size) and runs its negative controls."""
    st = tr = 0
    base = {"NCols": 2, "MaxOps": max_ops, "FaultAt": "{}", "EmptyWriteEmitsPages": "FALSE",
            "FooterSkipsDroppedBytes": "FALSE", "FooterCountsAddedRows": "FALSE", "SwallowSinkError": "FALSE", "ChildPagesHoldOneMore": "FALSE"}
    for mp in pages:
        c = dict(base, MaxPage=mp)
        r = model_check("MC_Layout", c, ["TypeOK", "FooterTruthful", "PagesLegal", "Framing", "EmptyWriteInert", "FaultReported"],
                        workers=8, tag="mclayout%d" % mp, coverage=(mp == pages[0]))
        st += r["distinct"]
        tr += r["states"]
        if "actions" in r:
            ck.cov["spec_action_coverage"] = r["actions"]
            ck.cov["coverage_zero_actions"] = sorted(a for a, n in r["actions"].items() if n == 0)
    neg = []
    for name, sw in (("L1", {"EmptyWriteEmitsPages": "TRUE", "FooterSkipsDroppedBytes": "TRUE"}), ("L2", {"FooterCountsAddedRows": "TRUE"})):
        c = dict(base, MaxPage=2, MaxOps=6)
        c.update(sw)
        model_check("MC_Layout", c, ["FooterTruthful"], tag="mclayoutneg" + name, expect_violation="FooterTruthful")
        neg.append("MC_Layout with %s: FooterTruthful violated as required" % "+".join(sw))
    model_check("MC_Layout", dict(base, MaxPage=1, MaxOps=5, ChildPagesHoldOneMore="TRUE"), ["PagesLegal"], tag="mclayoutnegP", expect_violation="PagesLegal")
    neg.append("MC_Layout with ChildPagesHoldOneMore: PagesLegal violated as required")
    ck.cov["states"] = ck.cov.get("states", 0) + st
    ck.cov["transitions"] = ck.cov.get("transitions", 0) + tr
    ck.cov.setdefault("negative_controls", []).extend(neg)


def rec_cycle(recs, seed):
    """an endless, seed-dependent cycle through exported records"""
    i = seed
    while True:
        yield recs[i % len(recs)]
        i += 1


def history_key(p, case):
    h = "".join("a" if o["op"] == "add" else "w" if o["op"] == "write" else "c" for o in case["ops"])
    return "%s|%s" % (p.key, h)


def history_key_cfg(p, case):
    return "%s|page=%d|%s" % (history_key(p, case), case["page"], case["codec"])


# =========================================================================== C06
def c06():
    ck = Check("C06", "model_checking")
    q = ck.quick()
    n = 6 if q else 9
    mc_layout(ck, n + 1 if q else 10)
    words = export_histories(n)
    progs = build_programs(hist_programs())
    if len(usable(progs)) != len(progs):
        raise HarnessError("history schemas do not build: %s" % [p.build for p in progs if p.build["status"] != "ok"])
    load_schemas(progs)
    recs = export_records([(p.key, p.schema) for p in progs], 2, 60, ck.seed)
    distinct = set()
    for p in progs:
        cyc = rec_cycle(recs[p.key]["recs"], ck.seed)
        for wi, w in enumerate(words):
            for page in (1, 2, 3):
                codecs = CODECS if (q and len(w) <= 5) or not q else [CODECS[(wi + page + ck.seed) % 3]]
                for codec in codecs:
                    p.cases.append({"page": page, "codec": codec, "poff": (wi + ck.seed) % 16,
                                    "ops": ops_of(w, cyc), "reads": [{"mode": "plain"}]})
                    ck.add("evaluations")
                    pend, nontriv = 0, False
                    for ch in w:
                        if ch == "a":
                            pend += 1
                        else:
                            nontriv = nontriv or pend == 0 or pend >= page
                            pend = 0
                    if nontriv or pend > 0:
                        distinct.add((p.key, w, page, codec))
    ck.cov["distinct_nontrivial"] = len(distinct)
    ck.cov["rule"] = ("every word over {Add, Write} of length <= %d (TLC ExportHist, %d words) followed by Close x page size 1..3 x codecs x 2 "
                      "schemas (required-first, optional-first); non-trivial = the history has a Write with nothing pending, a batch of at "
                      "least the page size, or records pending at Close; distinct by (schema, word, page size, codec)" % (n, len(words)))
    ck.cov["exhaustive"] = True
    run_programs(progs, "c06", timeout=1800)
    for p in progs:
        ck.sample({"schema": p.key, "history": "aawwaaaw + Close", "page": 2})
    judge_programs(ck, progs, ["C06", "HARNESS"], "c06", describe=history_key)
    ck.assumptions += ["a history is replayed with records from TLC's ExportRecs; which records are used does not matter for this property"]
    ck.finish()


CHECKS["C06"] = c06


# =========================================================================== C02
def layout_cases(p, rr, seed, reads=None, light=False):
    """A spread of layouts for one program: one batch / small pages / several batches."""
    k = max(3, len(rr))
    third = max(1, k // 3)
    plans = [(1000, "a" * k + "w"), (2, "a" * k + "w"), (1, "a" * third + "w" + "a" * third + "w" + "a" * (k - 2 * third) + "w"),
             (3, "a" * (k - third) + "w" + "a" * third + "w")]
    out = []
    for i, (page, hist) in enumerate(plans):
        c = {"page": page, "codec": CODECS[(i + seed) % 3], "poff": (seed * 5 + i * 3) % 16, "ops": ops_of(hist, rec_cycle(rr, seed + i))}
        if reads:
            c["reads"] = reads
        if light:
            c["light"] = True
        out.append(c)
    return out


def c02():
    ck = Check("C02", "model_checking")
    q = ck.quick()
    mc_layout(ck, 6 if q else 9)
    forests = export_shapes(3 if q else 4)
    progs = fixed_programs() + hist_programs() + universe_programs(forests, toff_fn=lambda i, f: i + 3 * ck.seed)
    build_programs(progs)
    ok = usable(progs)
    ck.cov["programs_total"], ck.cov["programs_built"] = len(progs), len(ok)
    load_schemas(ok)
    recs = export_records([(p.key, p.schema) for p in ok], 2, 12 if q else 40, ck.seed)
    words = export_histories(5 if q else 7)
    distinct = set()
    for p in ok:
        rr = recs[p.key]["recs"]
        p.cases = layout_cases(p, rr, ck.seed)
        if p.key.startswith("hist:"):
            cyc = rec_cycle(rr, ck.seed)
            for wi, w in enumerate(words):
                p.cases.append({"page": 1 + wi % 3, "codec": CODECS[wi % 3], "poff": wi % 16, "ops": ops_of(w, cyc)})
        for c in p.cases:
            ck.add("evaluations")
            h = history_key(p, c)
            if c["page"] < 1000 or h.count("w") > 1:
                distinct.add((h, c["page"], c["codec"]))
    ck.cov["distinct_nontrivial"] = len(distinct)
    ck.cov["rule"] = ("files written by every program of F, the history schemas and the bounded grammar, with TLC-exported records in four "
                      "layouts (one batch; page size 2; three batches with page size 1; two batches with page size 3) and, for the history "
                      "schemas, every Add/Write history up to the bound; non-trivial = more than one page per chunk or more than one row "
                      "group; distinct by (program, history, page size, codec)")
    ck.cov["exhaustive"] = False
    run_programs(ok, "c02")
    ck.sample({"program": ok[0].key, "layouts": "a^k w | page 2 | three batches page 1 | two batches page 3"})
    ck.sample({"program": ok[-1].key, "case": ok[-1].cases[0]["ops"][:3]})
    judge_programs(ck, ok, ["C02", "HARNESS"], "c02")
    ck.assumptions += ["harness/pq is the independent Parquet/thrift-compact reader; pages are attributed to columns by consuming, per column "
                       "in schema order, pages until the batch's record count is reached (column chunks are contiguous by the format)",
                       "total_byte_size may be the compressed or the uncompressed sum; file_offset may be chunk start, chunk end or 0"]
    ck.finish()


CHECKS["C02"] = c02


# =========================================================================== C01
def compositions(words):
    """histories without empty writes that end in a Write: the splits of n records into non-empty batches"""
    out = []
    for w in words:
        if w and w[0] == "a" and w[-1] == "w" and "ww" not in w:
            out.append(w)
    return out


def big_record(rng, schema, max_list, big_strings, force_big=False, noisy=False):
    """A random record with long lists (and, rarely or when forced, 70 kB strings) - beyond the TLC bounds.
    noisy: the 70 kB strings are incompressible (token 998) instead of repetitive (999)."""
    def val(n, depth):
        def base(d):
            if n["typ"] == "group":
                return [val(k, d) for k in n["kids"]]
            if n["typ"] == "string" and big_strings and (force_big or rng.random() < 0.02):
                return 998 if noisy else 999
            return rng.randrange(0, 16)
        if n["rep"] == "req":
            return base(depth)
        if n["rep"] == "opt":
            return [] if rng.random() < 0.3 else [base(depth)]
        # nested lists multiply: only the outermost list of a path may be long (a record stays below ~10^4 entries per column)
        lim = max_list if depth == 0 else (12 if depth == 1 else 4)
        m = rng.choice([0, 0, 1, 2, 3, 8, 9, rng.randrange(0, lim)]) if depth == 0 else rng.choice([0, 1, 2, 3, rng.randrange(0, lim)])
        return [base(depth + 1) for _ in range(m)]
    return [val(n, 0) for n in schema]


def huge_page_cases(ck, p, codecs=None):
    """Workloads whose pages exceed 64 KiB (beyond a snappy block, a deflate window and any plausible I/O buffer), compressed or not:
    two records carry a 70 kB string in every string slot, one of them an incompressible one; one page per chunk, then a second
    small row group."""
    rng = random.Random(ck.seed * 7919 + len(p.key))
    rr = [big_record(rng, p.schema, 3, True, force_big=(i in (0, 2)), noisy=(i == 2)) for i in range(5)]
    return [{"page": 1000, "codec": codec, "poff": 1 + ci, "light": True, "ops": ops_of("aaaawaw", rr)} for ci, codec in enumerate(codecs or CODECS)]


def c01():
    ck = Check("C01", "model_checking")
    q = ck.quick()
    mc_layout(ck, 6 if q else 8)
    progs = build_programs(fixed_programs() + hist_programs())
    ok = usable(progs)
    if len(ok) != len(progs):
        raise HarnessError("fixed schema set does not build: %s" % [(p.key, p.build["detail"][:200]) for p in progs if p.build["status"] != "ok"])
    load_schemas(ok)
    nmax = 5 if q else 7
    words = compositions(export_histories(2 * nmax))
    words = [w for w in words if w.count("a") <= nmax]
    recs = export_records([(p.key, p.schema) for p in ok], 2, 60 if q else 300, ck.seed)
    distinct = set()
    for pi, p in enumerate(ok):
        cyc = rec_cycle(recs[p.key]["recs"], ck.seed + pi)
        for wi, w in enumerate(words):
            n = w.count("a")
            for page in sorted({1, 2, 3, 4, n + 1}):
                codecs = CODECS if not q else [CODECS[(wi + page + ck.seed) % 3]]
                for codec in codecs:
                    p.cases.append({"page": page, "codec": codec, "poff": (wi * 3 + page + ck.seed) % 16, "ops": ops_of(w, cyc),
                                    "mutate": (wi + page) % 2 == 0, "light": True,
                                    "reads": [{"mode": "plain"}, {"mode": "scanstable"}]})
                    ck.add("evaluations")
                    if w.count("w") > 1 or page <= n:
                        distinct.add((p.key, w, page, codec))
        # beyond the TLC bounds: seeded random workloads with long lists, many records, big pages
        for b in range(2 if q else 6):
            nrec = ck.rng.choice([9, 17, 64, 130] if q else [9, 64, 257, 1000, 3000])
            page = ck.rng.choice([1, 7, 8, 9, 64, 1000])
            rr = [big_record(ck.rng, p.schema, 40 if q else 300, b == 0, force_big=(b == 0 and i in (0, nrec // 2)))
                  for i in range(nrec)]     # two records carry a 70 kB string in every string slot
            cut = sorted(ck.rng.sample(range(1, nrec), min(2, nrec - 1)))
            hist = "a" * cut[0] + "w" + "a" * (cut[1] - cut[0]) + "w" + "a" * (nrec - cut[1]) + "w"
            # the workload with the 70 kB strings (pages beyond the snappy block size and the deflate window) runs under every codec
            for codec in (CODECS if b == 0 else [CODECS[b % 3]]):
                p.cases.append({"page": page, "codec": codec, "poff": ck.rng.randrange(16), "ops": ops_of(hist, rr), "light": True,
                                "mutate": True, "reads": [{"mode": "plain"}]})
                ck.add("evaluations")
                ck.add("random_big_workloads")
                distinct.add((p.key, "big", b, page, codec))
        # scale beyond what one event per record can carry: >= 65 536 records / values in one page / level entries in one chunk
        if p.key.startswith("hist:") or p.key in ("fixed:Flat", "fixed:AllTypes", "fixed:Document"):
            small_schema = p.key.startswith("hist:")
            big = [(66000, [66000], 100000), (66000, [40000, 26000], 1000)]
            if not q and small_schema:
                big += [(300000, [300000], 2000000), (150000, [50000, 100000], 70000)]
            for n, batches, page in big:
                if p.key == "fixed:AllTypes" and q and page == 1000:
                    continue
                p.cases.append({"page": page, "codec": CODECS[(pi + n) % 3], "poff": 2, "ops": [], "bulk": {"n": n, "batches": batches}})
                ck.add("evaluations")
                ck.add("bulk_workloads")
                distinct.add((p.key, "bulk", n, page))
        # scale: more than 255 row groups in one file, more than 255 pages in one chunk (counters narrower than int would wrap)
        if p.key.startswith("hist:"):
            nsc = 300 if q else 700
            for hist, page in (("aw" * nsc, 1000), ("a" * nsc + "w", 1), ("a" * (nsc // 2) + "w" + "a" * (nsc // 2) + "w", 1)):
                p.cases.append({"page": page, "codec": CODECS[(pi + page) % 3], "poff": 5, "ops": ops_of(hist, cyc), "light": True,
                                "reads": [{"mode": "plain"}]})
                ck.add("evaluations")
                ck.add("scale_workloads")
                distinct.add((p.key, "scale", hist[:4], page))
    ck.cov["distinct_nontrivial"] = len(distinct)
    ck.cov["rule"] = ("for each schema of F (all 8 types x required/optional/repeated, nested, repeated and embedded groups): every split of "
                      "n <= %d records into non-empty batches (TLC ExportHist) x page size {1,2,3,4,n+1} x codec, records = TLC-exported structures "
                      "concretised from adversarial value pools (min/max ints, +-0, +-Inf, NaN payloads, empty/long/non-UTF8/sentinel strings), "
                      "half of the cases mutate the record after Add, every case is read twice (plain, and re-checking every scanned record after "
                      "each later Scan); plus seeded random workloads up to 3000 records, lists up to 300, 70 kB strings, files with 300 (700) row groups / 300 (700) pages per chunk, and bulk "
                      "workloads of 66 000 (300 000) index-generated records in one page / several pages (compared in Go, judged as one event); non-trivial = more than "
                      "one batch or more than one page; distinct by (schema, split, page size, codec)" % nmax)
    ck.cov["exhaustive"] = False
    run_programs(ok, "c01", timeout=1800)
    ck.sample({"schema": "fixed:AllTypes", "split": "aawaaaw", "page": 2, "codec": "gzip", "mutate_after_add": True})
    ck.sample({"schema": ok[1].key, "record": ok[1].cases[0]["ops"][0].get("rec")})
    judge_programs(ck, ok, ["C01", "HARNESS"], "c01", describe=history_key_cfg)
    ck.assumptions += ["value fidelity is decided by mapping each concrete value read back to its pool token by bit pattern (Go, trusted base); "
                       "TLC compares token-carrying records"]
    ck.finish()


CHECKS["C01"] = c01


# =========================================================================== C12
STATS_SCHEMA = """package main

type Rec struct {
	I32 int32
	I64 int64
	U32 uint32
	U64 uint64
	F32 float32
	F64 float64
	S   string

	OI32 *int32
	OI64 *int64
	OU32 *uint32
	OU64 *uint64
	OF32 *float32
	OF64 *float64
	OB   *bool
	OS   *string

	RI32 []int32
	RU64 []uint64
	RF32 []float32
	RS   []string
}
"""


def export_patterns(max_len, ntok):
    from wfam import _export
    rows = _export("ExportPat", {"OutFile": '"pat.ndjson"', "MaxLen": max_len, "NTok": ntok}, "pat.ndjson", tag="pat")
    pats = rows[0]["patterns"]
    pats.sort(key=lambda p: (len(p), p))
    return pats


def c12():
    from wfam import Program
    ck = Check("C12", "model_checking")
    q = ck.quick()
    mc = model_check("MC_Stats", {"MaxLen": 3 if q else 4, "NRank": 3, "SentinelBug": "FALSE"}, ["SoundInv", "NullInv", "AbsentInv"], tag="mcstats")
    ck.cov["states"], ck.cov["transitions"] = mc["distinct"], mc["states"]
    model_check("MC_Stats", {"MaxLen": 3, "NRank": 3, "SentinelBug": "TRUE"}, ["SoundInv"], tag="mcstatsneg", expect_violation="SoundInv")
    ck.cov["negative_controls"] = ["MC_Stats with SentinelBug (in-band 'no value yet' marker): SoundInv violated as required"]
    p = Program("stats:AllKinds", STATS_SCHEMA)
    build_programs([p])
    if p.build["status"] != "ok":
        raise HarnessError("stats schema does not build: " + p.build["detail"])
    load_schemas([p])
    pats = export_patterns(3 if q else 4, 3)     # sequences over {null, tok 0..2}
    poffs = list(range(0, 32, 5 if q else 1)) + ([20, 24] if q else [])     # the string pool has 32 entries (20..31: long shared prefixes, 0xff bytes)
    poffs = sorted({(x + ck.seed - 1) % 32 for x in poffs})
    distinct = set()
    for pi, pat in enumerate(pats):
        for poff in poffs:
            # one record per pattern entry: required <- tok (null -> 0), optional <- tok or nil, repeated <- [tok] or []
            recs = []
            for e in pat:
                t = max(e, 0)
                opt = [] if e < 0 else [t]
                recs.append([t] * 7 + [opt] * 8 + [opt] * 4)
            # and one record carrying the whole pattern in its lists
            whole = [t for t in pat if t >= 0]
            recs2 = [[0] * 7 + [[]] * 8 + [whole] * 4]
            # ... and the same list after a record that contributes one ordered value (the list's values then compete with it)
            recs3 = [[0] * 7 + [[]] * 8 + [[0]] * 4] + recs2
            for rr, page in ((recs, 1000), (recs, 2), (recs2, 1000), (recs3, 1000)):
                if not rr:
                    continue
                p.cases.append({"page": page, "codec": CODECS[(pi + poff) % 3], "poff": poff, "ops": ops_of("a" * len(rr) + "w", rr)})
                ck.add("evaluations")
            if len(set(pat)) > 1:
                distinct.add((tuple(pat), poff))
    # seeded random larger multisets
    for b in range(20 if q else 200):
        n = ck.rng.randrange(5, 40)
        recs = []
        for _ in range(n):
            def opt():
                return [] if ck.rng.random() < 0.3 else [ck.rng.randrange(32)]
            recs.append([ck.rng.randrange(32) for _ in range(7)] + [opt() for _ in range(8)] +
                        [[ck.rng.randrange(32) for _ in range(ck.rng.randrange(0, 4))] for _ in range(4)])
        p.cases.append({"page": ck.rng.choice([3, 8, 1000]), "codec": CODECS[b % 3], "poff": 0, "ops": ops_of("a" * n + "w", recs)})
        ck.add("evaluations")
        distinct.add(("rand", b))
    # several batches per writer (statistics must not leak from one row group's pages into the next) ...
    for pi, pat in enumerate(pats):
        if len(pat) < 2:
            continue
        poff = poffs[pi % len(poffs)]
        recs = []
        for e in pat:
            t = max(e, 0)
            opt = [] if e < 0 else [t]
            recs.append([t] * 7 + [opt] * 8 + [opt] * 4)
        hist = "aw" * len(recs) if pi % 2 else "a" + "w" + "a" * (len(recs) - 1) + "w"
        p.cases.append({"page": 1 + pi % 2, "codec": CODECS[pi % 3], "poff": poff, "ops": ops_of(hist, recs)})
        ck.add("evaluations")
        distinct.add(("batches", tuple(pat), poff))
    # ... and nested columns (definition depth >= 2, repeated groups): the schemas of F with TLC-exported record structures
    nested = build_programs(fixed_programs(["Document", "Person", "Deep5", "BoolHeavy", "SameNames"]))
    nested = usable(nested)
    load_schemas(nested)
    nrecs = export_records([(x.key, x.schema) for x in nested], 2, 24 if q else 120, ck.seed)
    for x in nested:
        x.cases = layout_cases(x, nrecs[x.key]["recs"], ck.seed)
        for c in x.cases:
            ck.add("evaluations")
            distinct.add((x.key, c["page"], c["codec"]))
    run_programs(nested, "c12n", timeout=1800)
    ck.cov["distinct_nontrivial"] = len(distinct)
    ck.cov["rule"] = ("pages whose entries follow every pattern over {null, rank 0..2} of length <= %d (TLC ExportPat, %d patterns), concretised "
                      "for 7 required, 8 optional and 4 repeated columns of every supported type from %d slices of the adversarial value pools "
                      "(extremes, +-0, +-Inf, NaNs, '', the string '__#NIL#__', byte strings differing in a high byte), each as one page, as pages "
                      "of 2, as one list and spread over several Write batches; the nested schemas of F (definition depth >= 2, repeated groups) with "
                      "TLC-exported record structures in four layouts; plus seeded random pages of 5-40 records; non-trivial = the pattern has at least two different entries; "
                      "distinct by (pattern, pool slice)" % (3 if q else 4, len(pats), len(poffs)))
    ck.cov["exhaustive"] = False
    run_programs([p], "c12", timeout=1800)
    ck.sample({"pattern": pats[len(pats) // 2], "poff": poffs[0], "meaning": "-1 = null, t = pool value number t+poff of the column's type"})
    judge_programs(ck, nested, ["C12", "HARNESS"], "c12n", describe=history_key_cfg)
    judge_programs(ck, [p], ["C12", "HARNESS"], "c12", describe=lambda pr, c: "%s|poff=%d|%s" % (pr.key, c["poff"], json.dumps([o.get("rec") for o in c["ops"] if o["op"] == "add"])[:300]))
    ck.assumptions += ["the order of each column type (signed, unsigned, IEEE with NaN excluded, bytewise) is computed by ~40 lines of Go in the driver "
                       "(statsObs/less); TLC receives ranks", "an absent null_count/min/max is never wrong"]
    ck.finish()


CHECKS["C12"] = c12


# =========================================================================== reader environment: C08, C10, C11, C09
def env_files(ck, names, nrec, layouts):
    """programs of F with a few files each (layout x codec); returns programs with cases lacking 'reads'"""
    progs = build_programs(fixed_programs(names))
    ok = usable(progs)
    if len(ok) != len(progs):
        raise HarnessError("fixed schema set does not build")
    load_schemas(ok)
    recs = export_records([(p.key, p.schema) for p in ok], 2, nrec, ck.seed)
    for pi, p in enumerate(ok):
        rr = recs[p.key]["recs"]
        k = len(rr)
        for li, (page, hist_fn) in enumerate(layouts):
            for ci, codec in enumerate(CODECS):
                p.cases.append({"page": page, "codec": codec, "poff": (ck.seed + pi + li + ci) % 16, "light": True,
                                "ops": ops_of(hist_fn(k), rec_cycle(rr, ck.seed + li))})
    return ok


LAYOUT_ONE = (1000, lambda k: "a" * k + "w")
LAYOUT_MULTI = (2, lambda k: "a" * (k - k // 2) + "w" + "a" * (k // 2) + "w")


def mc_reader(ck, prop_inv, neg_switch, neg_inv):
    base = {"NRowGroups": 2, "NCols": 2, "PagesPerChunk": 2, "SingleReadPerPage": "FALSE", "IgnoreReadError": "FALSE",
            "TrustFooterOnly": "FALSE", "AcceptUnsupported": "FALSE", "SkipMagicCheck": "FALSE"}
    r = model_check("MC_Reader", base, prop_inv, workers=8, tag="mcreader", coverage=True)
    ck.cov["states"], ck.cov["transitions"] = r["distinct"], r["states"]
    ck.cov["spec_action_coverage"] = r["actions"]
    ck.cov["coverage_zero_actions"] = sorted(a for a, n in r["actions"].items() if n == 0)
    c = dict(base)
    c[neg_switch] = "TRUE"
    model_check("MC_Reader", c, [neg_inv], tag="mcreaderneg", expect_violation=neg_inv)
    ck.cov["negative_controls"] = ["MC_Reader with %s: %s violated as required" % (neg_switch, neg_inv)]


def c08():
    ck = Check("C08", "model_checking")
    q = ck.quick()
    mc_reader(ck, ["FragmentationInvariant", "TypeOK"], "SingleReadPerPage", "FragmentationInvariant")
    ok = env_files(ck, ["AllTypes", "Document", "Person"] if q else None, 6 if q else 12, [LAYOUT_ONE, LAYOUT_MULTI])
    big_footer = []
    for p in ok:
        if p.key == "fixed:AllTypes":
            # a footer larger than any plausible read-ahead buffer (24 columns x 130 (400) row groups: about 100 (300) kB)
            nrg = 130 if q else 400
            rr0 = export_records([(p.key, p.schema)], 2, 6, ck.seed)[p.key]["recs"]
            c = {"page": 1000, "codec": "snappy", "poff": 4, "light": True, "ops": ops_of("aw" * nrg, rec_cycle(rr0, 1)),
                 "reads": [{"mode": "plain"}, {"mode": "chunk", "chunk": 1}, {"mode": "chunk", "chunk": 7}, {"mode": "chunk", "chunk": 4096},
                           {"mode": "chunk", "chunk": 5, "eofdata": True}, {"mode": "eofdata"}, {"mode": "rand", "seed": ck.seed * 7 + 1}, {"mode": "rand", "seed": ck.seed * 7 + 2}]}
            big_footer.append((p, c))
    for p in ok:
        for c in p.cases:
            reads = [{"mode": "plain"}]
            for n in list(range(1, 18)) + [64, 4096]:
                reads.append({"mode": "chunk", "chunk": n})
            reads += [{"mode": "chunk", "chunk": 1, "eofdata": True}, {"mode": "chunk", "chunk": 5, "eofdata": True}, {"mode": "eofdata"}]
            reads += [{"mode": "shortat", "allat": True, "how": "one"}, {"mode": "shortat", "allat": True, "how": "half"}]
            reads += [{"mode": "rand", "seed": ck.seed * 100 + i} for i in range(5 if q else 40)]
            c["reads"] = reads
    for p, c in big_footer:
        p.cases.append(c)
    # pages of more than 64 KiB (payloads beyond any plausible buffer, under every codec) through fragmenting sources
    nhuge = 0
    for p in ok:
        if p.key in ("fixed:AllTypes", "fixed:Document", "fixed:Person"):
            for c in huge_page_cases(ck, p):
                c["reads"] = [{"mode": "plain"}] + [{"mode": "chunk", "chunk": n} for n in (1, 7, 4096, 65536, 100000)] + \
                             [{"mode": "chunk", "chunk": 5000, "eofdata": True}, {"mode": "eofdata"}] + \
                             [{"mode": "rand", "seed": ck.seed * 13 + i} for i in range(2 if q else 8)]
                p.cases.append(c)
                nhuge += 1
    ck.cov["files_with_pages_over_64KiB"] = nhuge
    # conformant files of other writers (page splits per column, value-less pages at any position of a chunk, optional fields,
    # multi-member gzip pages ...) through fragmenting sources
    comps = export_comps(4)
    nforeign = 0
    for p in ok:
        cyc = rec_cycle(export_records([(p.key, p.schema)], 2, 8, ck.seed + 5)[p.key]["recs"], ck.seed)
        for fi in range(4 if q else 20):
            n = 2 + fi % 3
            fc = foreign_case(ck.rng, [next(cyc) for _ in range(n)], len(p.cols), comps, {"rgsplit": [n - 1, 1]} if fi % 2 else None)
            for col in fc["cols"]:      # value-less pages at the end (and elsewhere) of every chunk
                col["pages"] = [pg + [0] * (1 + fi % 3) if gi == 0 else [0] + pg for gi, pg in enumerate(col["pages"])]
            p.cases.append({"page": 1000, "codec": "snappy", "poff": ck.rng.randrange(16), "ops": [], "foreign": fc,
                            "reads": [{"mode": "chunk", "chunk": k} for k in (1, 2, 3, 7, 24)] + [{"mode": "chunk", "chunk": 5, "eofdata": True}] +
                                     [{"mode": "rand", "seed": ck.seed * 31 + fi * 7 + j} for j in range(3)]})
            nforeign += 1
    ck.cov["foreign_files"] = nforeign
    run_programs(ok, "c08", timeout=1800)
    n = d = 0
    for p in ok:
        for e in p.events:
            if e.get("ev") == "Read":
                n += 1
                if e["mode"] != "plain":
                    d += 1
    ck.cov["evaluations"], ck.cov["distinct_nontrivial"] = n, d
    ck.cov["reader_runs_judged"] = n
    ck.cov["rule"] = ("for each file (schemas of F x {one row group, two row groups with pages of 2} x 3 codecs): fixed read chunk sizes 1..17, 64, 4096; "
                      "data returned together with io.EOF; for EVERY Read call k of the unfragmented run, only call k is short (1 byte; half); seeded "
                      "random short reads; non-trivial = any fragmenting source; each (file, pattern) is distinct by construction")
    ck.cov["exhaustive"] = False
    ck.sample({"file": ok[0].key, "pattern": "only Read call k returns 1 byte, for every k"})
    ck.sample({"file": ok[-1].key, "pattern": "chunk=7"})
    judge_programs(ck, ok, ["C08", "HARNESS"], "c08", describe=history_key_cfg)
    ck.cov["traces_validated_against_impl"] = n      # every reader run is one judged behaviour
    ck.assumptions += ["sources obey the io.Reader contract: 1 <= n <= len(p) bytes per call, optionally n > 0 together with io.EOF at the end"]
    ck.finish()


def c10():
    ck = Check("C10", "fault_enumeration")
    q = ck.quick()
    mc_reader(ck, ["NoSilentCorruption", "TypeOK"], "IgnoreReadError", "NoSilentCorruption")
    ok = env_files(ck, ["AllTypes", "Document", "Person"] if q else None, 5 if q else 10, [LAYOUT_MULTI] if q else [LAYOUT_ONE, LAYOUT_MULTI])
    for p in ok:
        for c in p.cases:
            reads = [{"mode": "plain"}]
            for kind in ("zero", "half", "eof", "ueof"):
                reads.append({"mode": "fault", "allat": True, "kind": kind})
                if kind == "zero" or (not q and kind == "eof"):
                    reads.append({"mode": "fault", "allat": True, "kind": kind, "sticky": True})
            c["reads"] = reads
    # pages of more than 64 KiB (readers that fetch large pages or chunks differently from small ones), every fault kind at every call
    for p in ok:
        if p.key in ("fixed:AllTypes", "fixed:Document", "fixed:Person"):
            for c in huge_page_cases(ck, p, CODECS if not q else [CODECS[(ck.seed + len(p.key)) % 3]]):
                c["reads"] = [{"mode": "plain"}] + [{"mode": "fault", "allat": True, "kind": kind} for kind in ("zero", "half", "eof", "ueof")]
                p.cases.append(c)
                ck.add("files_with_pages_over_64KiB")
    run_programs(ok, "c10", timeout=2400)
    n = d = 0
    for p in ok:
        for e in p.events:
            if e.get("ev") == "Read" and e["mode"] == "fault":
                n += 1
                if e["faulted"]:
                    d += 1
    ck.cov["evaluations"], ck.cov["distinct_nontrivial"] = n, d
    ck.cov["rule"] = ("for each file: every index k over ALL Read and Seek calls of the fault-free run x fault kind {error with 0 bytes, error with half "
                      "the bytes, spurious io.EOF, io.ErrUnexpectedEOF} (one-shot; sticky variants in addition); non-trivial = the injected fault was "
                      "actually hit by the run; distinct by (file, k, kind, sticky)")
    ck.cov["exhaustive"] = True
    ck.sample({"file": ok[0].key, "fault": "Read/Seek call k returns (0, err), every k"})
    judge_programs(ck, ok, ["C10", "HARNESS"], "c10", describe=history_key_cfg)
    ck.cov["traces_validated_against_impl"] = n      # every reader run is one judged behaviour
    ck.assumptions += ["acceptable outcomes: constructor error, or Error() != nil after Next returned false, or every delivered row correct and none missing"]
    ck.finish()


def c11():
    ck = Check("C11", "fault_enumeration")
    q = ck.quick()
    mc_reader(ck, ["TruncationRejected", "TypeOK"], "TrustFooterOnly", "TruncationRejected")
    model_check("MC_Reader", {"NRowGroups": 2, "NCols": 2, "PagesPerChunk": 2, "SingleReadPerPage": "FALSE", "IgnoreReadError": "FALSE", "TrustFooterOnly": "FALSE",
                              "AcceptUnsupported": "FALSE", "SkipMagicCheck": "TRUE"}, ["TruncationRejected"], tag="mcreadermagic", expect_violation="TruncationRejected")
    ck.cov["negative_controls"].append("MC_Reader with SkipMagicCheck (the repaired defect): TruncationRejected violated as required")
    ok = env_files(ck, ["AllTypes", "Document"] if q else None, 4 if q else 10, [LAYOUT_MULTI] if q else [LAYOUT_ONE, LAYOUT_MULTI])
    # files whose DATA looks like the tail of a file: the strings "\xff\xff\xff\xffPAR1" and "PAR1" (string pool entries 28, 29)
    for p in ok:
        extra = []
        for c in p.cases[:3]:
            c2 = dict(c)
            c2["poff"] = 27
            extra.append(c2)
        p.cases += extra
    # files whose data holds a complete parquet file of its own (other columns, one row group) as a string value, stored verbatim
    # (uncompressed; and, where it is a page's minimum or maximum, in the page header's statistics under any codec): the prefix
    # that ends behind the value ends in a genuine footer, length and magic
    nemb = 0
    for p in ok:
        def embed(rec, nodes):
            return [(embed(v, n["kids"]) if n["typ"] == "group" and n["rep"] == "req" else
                     [embed(x, n["kids"]) for x in v] if n["typ"] == "group" else
                     (997 if n["rep"] == "req" else [997 for _ in v]) if n["typ"] == "string" else v) for v, n in zip(rec, nodes)]
        for c in list(p.cases[:2]):
            adds = [o for o in c["ops"] if o["op"] == "add"]
            if len(adds) < 2:
                continue
            c2 = dict(c, codec="uncompressed" if nemb % 2 == 0 else c["codec"])
            k = 0
            ops = []
            for o in c["ops"]:
                if o["op"] == "add":
                    k += 1
                    if k == 2:
                        o = {"op": "add", "rec": embed(o["rec"], p.schema)}
                ops.append(o)
            c2["ops"] = ops
            p.cases.append(c2)
            nemb += 1
    ck.cov["files_with_an_embedded_parquet_file_as_a_value"] = nemb
    for p in ok:
        for c in p.cases:
            c["reads"] = [{"mode": "plain"}, {"mode": "trunc", "alltrunc": True}]
    # large files (beyond any plausible read-ahead buffer: 100-300 kB), every strict prefix, summarised per file
    hp = usable(build_programs(hist_programs()))
    load_schemas(hp)
    nsweep = 0
    for p in hp + [x for x in ok if x.key == "fixed:AllTypes"]:
        big = [(5000, "uncompressed"), (5000, "snappy")] if p.key.startswith("hist:") else [(500, "uncompressed")]
        if not q:
            big += [(5000, "gzip")]
        for n, codec in big:
            p.cases.append({"page": 1000, "codec": codec, "poff": 3, "ops": [], "bulk": {"n": n, "batches": [n - n // 3, n // 3], "trunc": True}})
            nsweep += 1
    # the cuts inside the trailing length/magic: files are searched for whose last bytes, read as a footer length once the trailing
    # bytes are gone, lead back to the start of the footer (driver: tailSearch); the last 12 prefixes of each file found are judged
    ntail = 0
    for p in ok + hp:
        if p.key in (("fixed:Person", "fixed:Document", "fixed:AllTypes", "fixed:Flat") if q else [x.key for x in ok + hp]):
            for codec in (["uncompressed"] if q else ["uncompressed", "gzip"]):
                p.cases.append({"page": 1000, "codec": codec, "poff": 3, "ops": [], "bulk": {"n": 0, "batches": [], "tail": 8000 if q else 20000}})
                ntail += 1
    ck.cov["tail_searches"] = ntail
    ok = ok + hp
    ck.cov["large_files_swept"] = nsweep
    run_programs(ok, "c11", timeout=2400, env_extra={"GOMEMLIMIT": "2GiB"})
    n = 0
    for p in ok:
        for e in p.events:
            if e.get("ev") == "Read" and e["mode"] == "trunc":
                n += 1
    for p in ok:
        for e in p.events:
            if e.get("ev") == "TruncSweep":
                n += e["n"]
    ck.cov["tail_files_searched"] = sum(e["searched"] for p in ok for e in p.events if e.get("ev") == "TailSearch")
    ck.cov["tail_files_found_and_judged"] = sum(e["found"] for p in ok for e in p.events if e.get("ev") == "TailSearch")
    ck.cov["evaluations"], ck.cov["distinct_nontrivial"] = n, n
    ck.cov["rule"] = ("every strict prefix (every length 0..len-1) of every file (schemas of F x layouts x 3 codecs, plus files of 100-300 kB whose prefixes "
                      "are judged by the driver and reported per file); every prefix is a distinct crash point "
                      "and non-trivial (the file is invalid by construction)")
    ck.cov["exhaustive"] = True
    ck.sample({"file": ok[0].key, "prefixes": "0 .. len-1"})
    judge_programs(ck, ok, ["C11", "HARNESS"], "c11", describe=history_key_cfg)
    ck.cov["traces_validated_against_impl"] = n      # every reader run is one judged behaviour
    ck.assumptions += ["'accepted' = no constructor error and Error() == nil once Next returned false"]
    ck.finish()


def c09():
    ck = Check("C09", "fault_enumeration")
    q = ck.quick()
    base = {"MaxPage": 2, "NCols": 2, "MaxOps": 5, "FaultAt": "{" + ",".join(str(i) for i in range(1, 30)) + "}", "EmptyWriteEmitsPages": "FALSE",
            "FooterSkipsDroppedBytes": "FALSE", "FooterCountsAddedRows": "FALSE", "SwallowSinkError": "FALSE", "ChildPagesHoldOneMore": "FALSE"}
    r = model_check("MC_Layout", base, ["TypeOK", "FaultReported"], workers=8, tag="mclayoutfault")
    ck.cov["states"], ck.cov["transitions"] = r["distinct"], r["states"]
    model_check("MC_Layout", dict(base, SwallowSinkError="TRUE", MaxOps=4), ["FaultReported"], tag="mclayoutswallow", expect_violation="FaultReported")
    ck.cov["negative_controls"] = ["MC_Layout with SwallowSinkError: FaultReported violated as required"]
    # layouts: one page per chunk; three batches with up to two pages; a batch of four pages per chunk (the chain of page writers)
    ok = env_files(ck, None if not q else ["AllTypes", "Document", "Person", "BoolHeavy"], 7,
                   [LAYOUT_ONE, (2, lambda k: "a" * 3 + "w" + "a" * (k - 4) + "w" + "aw"), (1, lambda k: "a" * 4 + "w" + "aaw")])
    # large pages (several kB of levels and values per page: code paths that switch on the size of a page), every codec
    recs_big = export_records([(p.key, p.schema) for p in ok], 2, 12, ck.seed + 9)
    for p in ok:
        if p.key in ("fixed:AllTypes", "fixed:Document"):
            cyc = rec_cycle(recs_big[p.key]["recs"], ck.seed)
            for ci, codec in enumerate(CODECS):
                p.cases.append({"page": 1000, "codec": codec, "poff": 2 + ci, "light": True, "ops": ops_of("a" * 700 + "w", cyc)})
    # pages of more than 64 KiB under every codec (writers that treat large and small writes differently)
    for p in ok:
        if p.key in ("fixed:AllTypes", "fixed:Document", "fixed:Person"):
            p.cases += huge_page_cases(ck, p)
    for p in ok:
        cases = []
        for c in p.cases:
            for how in ("zero", "half", "full"):
                c2 = dict(c)
                c2["sinkfault"], c2["faulthow"] = -1, how
                cases.append(c2)
        p.cases = cases
    run_programs(ok, "c09", timeout=1800)
    n = d = 0
    for p in ok:
        for e in p.events:
            if e.get("ev") == "SinkCall":
                n += 1
                if e["hit"]:
                    d += 1
    ck.cov["evaluations"], ck.cov["distinct_nontrivial"] = n, d
    ck.cov["rule"] = ("for each workload (schemas of F x {one batch, three batches with page overflow} x 3 codecs): every k from 1 to the number of sink "
                      "writes of the fault-free run, failing with (0, err) and with (len/2, err); evaluations = API calls observed, non-trivial = the API "
                      "call during which write k failed (one per k), distinct by (workload, k, kind)")
    ck.cov["exhaustive"] = True
    ck.sample({"workload": ok[0].key, "fault": "k-th sink Write returns (0, err), every k"})
    judge_programs(ck, ok, ["C09", "HARNESS"], "c09", describe=history_key_cfg)
    ck.cov["traces_validated_against_impl"] = sum(1 for p in ok for e in p.events if e.get("ev") == "SinkRun")   # one writer run per fault position
    ck.assumptions += ["only the call during which the sink failed is constrained; partial writes without an error are outside the io.Writer contract"]
    ck.finish()


CHECKS.update({"C08": c08, "C09": c09, "C10": c10, "C11": c11})


# =========================================================================== C05
SILENT = {"Striping", "LevelsBounded", "RowsExact", "BatchParses", "PageWellFormed", "PageSize", "RecordsPerColumn", "FooterDecodes", "Framing",
          "SchemaIsTree", "SchemaMatchesType", "ChunksMatchLeaves", "FooterTruthful", "FooterWalkFindsPages", "HeadMagic", "ScannedRecordsStable"}
PANIC = {"AddDoesNotPanic", "ReaderDoesNotPanic"}
ERROR = {"NewSucceeds", "WriteSucceeds", "CloseSucceeds", "ReaderReportsNoError"}


def category(conjs, events):
    if SILENT & set(conjs):
        return "silent"
    pan = any(e.get("panic") for e in events if e.get("ev") in ("New", "Add", "Write", "Close", "Read"))
    if PANIC & set(conjs) or pan:
        return "panic"
    return "error"


def stable_toff(forest):
    import hashlib
    return int(hashlib.sha1(json.dumps(forest, sort_keys=True).encode()).hexdigest()[:6], 16)


TYPE_REUSE = {
    # several columns of ONE primitive type with different repetition (the generator emits one field type per primitive type)
    "SameLeafTypes": "package main\n\ntype Rec struct {\n\tOffset  *int64\n\tSamples []int64\n\tName    *string\n\tTags    []string\n"
                     "\tFlag    *bool\n\tFlags   []bool\n\tN       int64\n\tRatio   *float64\n\tRatios  []float64\n}\n",
    # column names given by tags: with spaces, dots are not allowed by the format's path convention, other punctuation is
    "TagNames": "package main\n\ntype Contact struct {\n\tAddress string  `parquet:\"home address\"`\n\tPhone   *string `parquet:\"cell phone\" json:\"phone,omitempty\"`\n}\n\n"
                "type Rec struct {\n\tID       int64     `json:\"id\" parquet:\"id\"`\n\tContacts []Contact `parquet:\"contacts\"`\n\tNote     *string   `parquet:\"a-b c:d\"`\n}\n",
    "TwoPointers": "package main\n\ntype Addr struct {\n\tZip  int32\n\tCity *string\n}\n\ntype Rec struct {\n\tHome *Addr\n\tWork *Addr\n}\n",
    "TwoSlices": "package main\n\ntype Tag struct {\n\tID int32\n}\n\ntype Rec struct {\n\tTags []Tag\n\tAlt  []Tag\n}\n",
    "ValuePointerSlice": "package main\n\ntype Tag struct {\n\tID int32\n}\n\ntype Rec struct {\n\tFirst Tag\n\tOpt   *Tag\n\tMany  []Tag\n}\n",
    "NestedReuse": "package main\n\ntype Inner struct {\n\tV *string\n}\n\ntype Outer struct {\n\tIn *Inner\n\tK  int64\n}\n\ntype Rec struct {\n\tX *Outer\n\tY *Outer\n\tZ *Inner\n}\n",
    "ReuseBelowSibling": "package main\n\ntype Pt struct {\n\tX float64\n\tY float64\n}\n\ntype Box struct {\n\tMin *Pt\n\tMax *Pt\n}\n\ntype Rec struct {\n\tOrigin *Pt\n\tBounds *Box\n\tID     int64\n}\n",
}


def c05():
    from vlib import judge
    from wfam import split_cases, Program
    import sys
    ck = Check("C05", "translation_validation")
    q = ck.quick()
    emit = None
    for i, a in enumerate(sys.argv):
        if a == "--emit-findings":
            emit = sys.argv[i + 1]
    # ---- the algorithm the generated readers have to implement (Assembly.tla: one column at a time, index vector), model-checked
    # against the text-book striping over the bounded grammar and over the schema with three nested repeated groups
    base = {"MaxNodes": 3 if q else 4, "MaxDepth": 3, "MaxKids": 3, "MaxList": 2, "OnlyRep3": "FALSE", "ZeroOnlyNextLevel": "FALSE", "FreshSliceOnValue": "FALSE"}
    invs = ["AssemblyRoundTrip", "NoImpossibleIndex", "IndexVectorSane"]
    r1 = model_check("MC_Assembly", base, invs, workers=8, tag="mcasm", timeout=2400)
    r2 = model_check("MC_Assembly", dict(base, OnlyRep3="TRUE"), invs, workers=8, tag="mcasm3", timeout=2400)
    ck.cov["spec_states"] = r1["distinct"] + r2["distinct"]
    # the seeded index-vector slip is invisible with at most two nested lists and visible with three; the known generator slip
    # (fresh one-element list instead of append) is visible in the smallest repeated group
    model_check("MC_Assembly", dict(base, MaxNodes=3, MaxDepth=2, ZeroOnlyNextLevel="TRUE"), ["AssemblyRoundTrip", "NoImpossibleIndex"], workers=8, tag="mcasmd2")
    model_check("MC_Assembly", dict(base, OnlyRep3="TRUE", ZeroOnlyNextLevel="TRUE"), ["AssemblyRoundTrip"], tag="mcasmneg1", expect_violation="AssemblyRoundTrip")
    model_check("MC_Assembly", dict(base, MaxNodes=2, FreshSliceOnValue="TRUE"), ["AssemblyRoundTrip"], tag="mcasmneg2", expect_violation="AssemblyRoundTrip")
    ck.cov["negative_controls"] = ["MC_Assembly, index vector clearing only the next level: holds for schemas of depth 2, AssemblyRoundTrip violated for three nested lists",
                                   "MC_Assembly, fresh one-element list instead of append: AssemblyRoundTrip violated as required"]
    small = export_shapes(3)
    if q:
        u4, u5 = export_shapes(4), export_shapes(5)
        k3 = {json.dumps(f, sort_keys=True) for f in small}
        k4 = {json.dumps(f, sort_keys=True) for f in u4}
        only4 = [f for f in u4 if json.dumps(f, sort_keys=True) not in k3]
        only5 = [f for f in u5 if json.dumps(f, sort_keys=True) not in k4]
        forests = small + only4 + ck.rng.sample(only5, 80)
    else:
        forests = export_shapes(5)
    ck.cov["universe"] = "all %d schemas with <= 4 nodes + 80 seeded of the 6804 with 5 nodes" % (len(small) + len(only4)) if q else \
        "all %d schemas with <= 5 nodes (depth <= 3, <= 3 children per group)" % len(forests)
    from wfam import build_and_run
    progs = universe_programs(forests, toff_fn=lambda i, f: stable_toff(f))
    for p in progs:
        p.schema = p.forest          # the driver re-derives it by reflection; the judge cross-checks (HARNESS/ColumnsMatchSchema)
    # the universe gives every group its own Go type; real structs use one type for several fields
    reuse = [Program("reuse:" + k, src, None) for k, src in sorted(TYPE_REUSE.items())]
    build_programs(reuse)
    load_schemas(usable(reuse))
    for p in reuse:
        if p.build["status"] != "ok":
            p.schema = []
    progs += reuse
    ck.cov["programs"] = len(progs)
    ck.cov["type_reuse_programs"] = len(reuse)
    cap = int(os.environ.get("VERIF_C05_CAP", "30" if q else "300"))
    recs = export_records([(p.key, p.schema) for p in progs], 2, cap, ck.seed)
    for p in progs:
        rr = recs[p.key]["recs"]
        k = len(rr)
        # two layouts, and two value assignments that differ in every leaf (pool offsets p0 and p0+1: both booleans, zero and
        # non-zero numbers, empty and non-empty strings are tried for every token) - some generator defects depend on the values
        p0 = (ck.seed + k) % 16
        p.cases = [{"page": 1000, "codec": CODECS[(k + ck.seed) % 3], "poff": p0, "ops": ops_of("a" * k + "w", rr), "reads": [{"mode": "plain"}]},
                   {"page": 2, "codec": CODECS[(k + 1 + ck.seed) % 3], "poff": p0 + 1,
                    "ops": ops_of("a" * (k - k // 2) + "w" + "a" * (k // 2) + ("w" if k // 2 else ""), rr), "reads": [{"mode": "plain"}]},
                   {"page": 3, "codec": CODECS[(k + 2 + ck.seed) % 3], "poff": p0 + 3, "ops": ops_of("a" * k + "w", rr), "reads": [{"mode": "plain"}]},
                   {"page": 1000, "codec": CODECS[(k + ck.seed) % 3], "poff": p0 + 6, "ops": ops_of("a" * k + "w", rr), "reads": [{"mode": "plain"}]}]
        ck.add("values_tried", 4 * k)
    build_and_run(progs, "c05", timeout=1800, drop=len(progs) > 400)
    ok = progs
    # judge everything, then reduce to one verdict per program
    events = [e for p in ok for e in p.events]
    died = [e for e in events if e.get("ev") == "DriverDied"]
    events = [e for e in events if e.get("ev") != "DriverDied"]
    props = ["C01", "C02", "C03", "HARNESS"]
    verdicts, stats = judge(events, props, tag="c05")
    ck.cov["traces_validated_against_impl"] = stats["cases"]
    ck.cov["trace_events"] = stats["events"]
    if [v for v in verdicts if v["prop"] == "HARNESS"]:
        raise HarnessError("harness inconsistency in C05: %s" % [v for v in verdicts if v["prop"] == "HARNESS"][:3])
    per_prog = {}
    for v in verdicts:
        pi = int(v["case"].split(":")[0])
        per_prog.setdefault(pi, []).append(v)
    findings = []
    counts = {}
    for i, p in enumerate(progs):
        if p.build["status"] != "ok":
            findings.append((p, p.build["status"], {"detail": p.build["detail"]}))
    for pi, vs in per_prog.items():
        p = progs[pi]
        bycase = {}
        for v in vs:
            bycase.setdefault(v["case"], set()).add(v["conjunct"])
        cats = {}
        evmap = dict(split_cases(p.events))
        for cid, conjs in bycase.items():
            cats.setdefault(category(conjs, evmap.get(cid, [])), (cid, sorted(conjs)))
        for cat in ("silent", "panic", "error"):
            if cat in cats:
                cid, conjs = cats[cat]
                findings.append((p, cat, {"conjuncts": conjs, "case": p.cases[int(cid.split(":")[1])], "events": evmap.get(cid, [])[:30]}))
    for p in ok:
        if any(e.get("ev") == "DriverDied" for e in p.events) or any(e.get("ev") == "DriverPanic" for e in p.events):
            findings.append((p, "driver-died", {"detail": [e for e in p.events if e.get("ev") in ("DriverDied", "DriverPanic")][:2]}))
    ck.cov["disagreements_checked"] = len(findings)
    out = []
    new = 0
    for p, cat, info in sorted(findings, key=lambda x: (x[1], x[0].key)):
        counts[cat] = counts.get(cat, 0) + 1
        out.append({"property": "C05", "key": p.key, "what": cat, "status": "known"})
        if cat == "driver-died":
            raise HarnessError("driver died on %s: %s" % (p.key, info))
        if ck.is_known(p.key, cat) is None:
            new += 1
            if new > 15:
                continue
            if cat in ("silent", "panic", "error"):
                # confirm in a fresh process
                c2 = dict(info["case"])
                c2["id"] = "0:0"
                evs = [e for e in run_driver_fresh(p, c2)]
                v2, _ = judge(evs, props, tag="c05c", chunks=1)
                if category({v["conjunct"] for v in v2}, evs) != cat and not ({v["conjunct"] for v in v2} & set(info["conjuncts"])):
                    raise HarnessError("C05 verdict %s on %s not reproduced" % (cat, p.key))
        ck.report(p.key, cat, dict(info, program=p.key, source=p.src))
    ck.cov["failure_kinds"] = counts
    ck.cov["programs_ok"] = len(progs) - len({f[0].key for f in findings})
    ck.sample({"program": progs[0].key, "source": progs[0].src})
    ck.sample({"program": progs[-1].key, "records": len(progs[-1].cases[0]["ops"]) - 2 if progs[-1].cases else 0})
    for p, cat, info in findings[:3]:
        ck.sample({"program": p.key, "failure": cat, "detail": str(info.get("conjuncts") or info.get("detail"))[:200]})
    ck.cov["rule"] = ("program = one schema of the bounded grammar rendered as Go structs (leaf types a fixed function of the shape); parquetgen is run twice "
                      "(outputs must be identical), the package compiled, and every TLC-exported record structure (list lengths <= 2, seeded sample above the "
                      "cap) written in two layouts and read back; TLC judges the C01, C02 and C03 conjuncts; failure kinds: gen-fail, compile-fail, "
                      "nondeterministic, panic, error, silent (wrong data without error)")
    ck.cov["exhaustive"] = not q
    if emit:
        with open(emit, "w") as f:
            for o in out:
                f.write(json.dumps(o) + "\n")
    ck.assumptions += ["known findings are matched by (canonical shape, failure kind): a listed shape failing in a different way is reported as a violation"]
    ck.finish()


def run_driver_fresh(p, case):
    from vlib import run_driver
    from wfam import ensure_built
    return [e for e in run_driver(ensure_built(p), {"cases": [case]}, "confirm") if e.get("ev") != "DriverDied"]


CHECKS["C05"] = c05


# =========================================================================== C07 / C17: the leaf encoders
def run_tool(name, job, tag, timeout=3600):
    import subprocess
    from vlib import farm, WORK
    exe = farm().tool(name)
    d = os.path.join(WORK, "tool_" + tag)
    os.makedirs(d, exist_ok=True)
    jp, ep = os.path.join(d, "job.json"), os.path.join(d, "ev.ndjson")
    json.dump(job, open(jp, "w"))
    from vlib import limit_memory
    from wfam import FATAL_MARKS
    r = subprocess.run([exe, jp, ep], capture_output=True, text=True, timeout=timeout, preexec_fn=limit_memory)
    if r.returncode != 0:
        # a Go runtime fatal error (unbounded allocation ...) inside a library call kills the tool: find the op, re-run it alone
        # twice; reproducible fatal errors are reported as a synthetic one-case sweep with one bad entry (a verdict), all else is exit 2
        if any(m in r.stderr for m in FATAL_MARKS) and len(job.get("ops", [])) > 1:
            evs = []
            for l in (open(ep) if os.path.exists(ep) else []):
                try:
                    evs.append(json.loads(l))
                except json.JSONDecodeError:
                    pass       # the line that was being written when the process died
            for i, o in enumerate(job["ops"]):
                json.dump({"ops": [o]}, open(jp, "w"))
                rr = [subprocess.run([exe, jp, ep + ".1"], capture_output=True, text=True, timeout=timeout, preexec_fn=limit_memory) for _ in range(2)]
                if all(x.returncode != 0 and any(m in x.stderr for m in FATAL_MARKS) for x in rr):
                    mark = [m for m in FATAL_MARKS if m in rr[0].stderr][0]
                    o2 = {k: v for k, v in o.items() if k not in ("vectors",)}
                    return evs + [{"ev": "RunsAll", "op": o.get("op"), "w": o.get("w", 0), "kind": o.get("kind", ""), "count": 1, "nbad": 1,
                                   "bad": [{"levels": o.get("levels", "the seeded sweep of this op"), "stream": [],
                                            "problem": "the process dies in this op: " + mark, "op": o2}]}]
            raise HarnessError("%s died with a runtime fatal error that no single op reproduces: %s" % (name, r.stderr[:800]))
        raise HarnessError("%s failed (exit %s): %s" % (name, r.returncode, r.stderr[:600] + " ... " + r.stderr[-900:]))
    return [json.loads(l) for l in open(ep) if l.strip()]


def judge_bits(ck, events, props, tag):
    from vlib import judge
    # Reset markers let the judge split the trace into parallel chunks
    evs = []
    for i, e in enumerate(events):
        if i % 400 == 0:
            evs.append({"ev": "Reset", "case": "bits"})
        evs.append(e)
    verdicts, stats = judge(evs, props, module="TraceBits", tag=tag)
    if [v for v in verdicts if v["prop"] == "HARNESS"]:
        raise HarnessError("harness inconsistency: %s" % verdicts[:3])
    ck.add("traces_validated_against_impl", len(events))
    # map verdict lines back to events (line numbers are chunk-local: match by re-judging is overkill; report the conjunct and find the event)
    return verdicts, evs


def export_bits(mode, w=1, maxlen=1, support=2):
    from wfam import _export
    rows = _export("ExportBits", {"OutFile": '"bits.ndjson"', "Mode": '"%s"' % mode, "W": w, "MaxLen": maxlen, "Support": support},
                   "bits.ndjson", tag="bits" + mode)
    return rows[0]["vectors" if mode == "vectors" else "cases"]


def report_bits(ck, prop, events, verdicts, what_fn):
    """verdict lines are (chunk-local) positions; identify failing events by re-evaluating the Go-side fields"""
    if not verdicts:
        return
    conjs = sorted({v["conjunct"] for v in verdicts if v["prop"] == prop})
    if not conjs:
        return
    bad = [e for e in events if what_fn(e)]
    for e in bad[:8] or [{"note": "see conjuncts"}]:
        key = "w=%s %s levels=%s" % (e.get("w"), e.get("ev"), json.dumps(e.get("levels") or e.get("vals") or e.get("bytes") or e.get("bad"))[:200])
        ck.report(key, "+".join(conjs), {"event": e, "conjuncts": conjs})


BOUNDARY_RUNS = [1, 2, 3, 4, 5, 6, 7, 8, 9, 10, 11, 12, 13, 14, 15, 16, 17, 23, 24, 25, 63, 64, 65, 496, 503, 504, 505, 511, 512, 513, 520, 1016, 8191, 8192]


def c07():
    ck = Check("C07", "model_checking")
    q = ck.quick()
    st = tr = 0
    for w, n in ((1, 12 if q else 17), (2, 6 if q else 8), (3, 4 if q else 6), (4, 3 if q else 4)):
        r = model_check("MC_Hybrid", {"W": w, "MaxLen": n, "Runs": "{}", "MaxRuns": 0, "Cap": 63},
                        ["WellFormedAndFaithful", "PadIsZero", "StateOK", "HeadersFit"], workers=8, tag="mchyb%d" % w, timeout=1500)
        st += r["distinct"]
        tr += r["states"]
    runs = "{1, 7, 8, 9, 63, 64, 496, 504, 505, 512}" if q else "{1, 2, 7, 8, 9, 16, 63, 64, 65, 496, 503, 504, 505, 512, 513, 1016}"
    for w in ((2,) if q else (1, 2, 4)):
        # three runs only for width 1 (64^3 would be 2 M states of 3000-value streams for the wider widths)
        r = model_check("MC_Hybrid", {"W": w, "MaxLen": 0, "Runs": runs if w > 1 or q else "{1, 7, 8, 9, 63, 64, 504, 505, 512}",
                                      "MaxRuns": 2 if q or w > 1 else 3, "Cap": 63},
                        ["WellFormedAndFaithful", "PadIsZero", "StateOK", "HeadersFit"], workers=8, tag="mchybruns%d" % w, timeout=2400)
        st += r["distinct"]
        tr += r["states"]
    model_check("MC_Hybrid", {"W": 2, "MaxLen": 0, "Runs": "{8, 504, 512}", "MaxRuns": 2, "Cap": 64}, ["WellFormedAndFaithful"],
                tag="mchybneg", expect_violation="WellFormedAndFaithful")
    r = model_check("MC_Segs", {"W": 1, "MaxLen": 7 if q else 9}, ["AllForeignOK"], workers=8, tag="mcsegs", timeout=1500)
    st += r["distinct"]
    tr += r["states"]
    ck.cov["states"], ck.cov["transitions"] = st, tr
    ck.cov["negative_controls"] = ["MC_Hybrid with the group cap at 64 instead of 63: WellFormedAndFaithful violated as required"]
    # ---- cross-check the Go mirror of the spec operators against TLC-evaluated vectors
    vectors = export_bits("vectors")
    ops = [{"op": "mirror", "vectors": vectors}]
    # ---- encoder side, through the public column API
    bounds = {1: 16, 2: 8, 3: 6, 4: 4} if q else {1: 20, 2: 10, 3: 7, 4: 5}
    for w, n in bounds.items():
        for kind in ("def", "rep"):
            if kind == "rep" and w > 2 and q:
                continue
            total = sum((1 << w) ** k for k in range(0, n + 1))
            ops.append({"op": "encall", "w": w, "kind": kind, "minlen": 1, "maxlen": n if kind == "def" else max(1, n - 2),
                        "sample": max(1, total // (400 if q else 1500))})
    for w in (1, 2, 3, 4):
        ops.append({"op": "encruns", "w": w, "kind": "def", "count": 1500 if q else 12000, "seed": ck.seed * 10 + w, "nruns": 5, "runlens": BOUNDARY_RUNS,
                    "sample": 10 if q else 40})
    for w in (1, 2, 3, 4):
        for kind in ("def", "rep"):
            ops.append({"op": "encgrid", "w": w, "kind": kind, "maxlen": 17 if q else 33, "nruns": 26 if q else 70,
                        "runlens": [63, 64, 65, 496, 503, 504, 505, 512, 513], "sample": 1500 if q else 4000})
    # runs whose header needs 3 and 4 LEB128 bytes (run length >= 8192 and >= 1048576), and the 16-bit boundary
    huge = [8191, 8192, 16383, 16384, 65535, 65536, 70000] + ([] if q else [1048575, 1048576, 1100000])
    for w in (1, 2) if q else (1, 2, 3, 4):
        for kind, op in (("def", "encruns"), ("def", "decruns"), ("rep", "decruns")):
            ops.append({"op": op, "w": w, "kind": kind, "count": 30 if q else 120, "seed": ck.seed * 1000 + w, "nruns": 3,
                        "runlens": huge + [1, 7, 8, 9], "sample": 0})
    # ---- decoder side: every segmentation of every short sequence (TLC), random long ones
    segcases = []
    for w, n in ((1, 6 if q else 8), (2, 3 if q else 4), (3, 2), (4, 2)):
        segcases += export_bits("segs", w=w, maxlen=n)
    ck.rng.shuffle(segcases)
    cap = 6000 if q else 60000
    ck.cov["segmentation_cases_exported"] = len(segcases)
    for i, c in enumerate(segcases[:cap]):
        ops.append({"op": "dec", "w": c["w"], "kind": "def" if i % 5 else "rep", "levels": c["levels"],
                    "segs": [{"rle": s["rle"], "n": s["n"]} for s in c["segs"]], "pad": (i * 7) % (1 << c["w"])})
    # one long bit-packed run between two RLE runs, group counts around every power-of-two payload size
    for w in (1, 2, 3, 4):
        for g in (62, 63, 64, 65, 85, 86, 127, 128, 129, 170, 171, 255, 256, 257, 511, 512, 513) + (() if q else (1023, 1024, 2047, 2048, 8191, 8192)):
            lv = [1] * 13 + [(i * 7 + i // 3) % (1 << w) for i in range(8 * g)] + [0] * 9
            ops.append({"op": "dec", "w": w, "kind": "def" if g % 2 else "rep", "levels": lv, "pad": 0, "big": True,
                        "segs": [{"rle": True, "n": 13}, {"rle": False, "n": 8 * g}, {"rle": True, "n": 9}]})
    # run headers written in a fixed, longer-than-needed varint slot (2..5 bytes for small counts), RLE and bit-packed
    for w in (1, 2, 3, 4):
        m = (1 << w) - 1
        lv = [m] * 10 + [0, 0, 1, 0, m, 0, 0, 0] + [1] * 9
        for pad in (1, 2, 3, 4):
            ops.append({"op": "dec", "w": w, "kind": "def" if pad % 2 else "rep", "levels": lv, "pad": 0,
                        "segs": [{"rle": True, "n": 10, "hdrpad": pad}, {"rle": False, "n": 8, "hdrpad": pad}, {"rle": True, "n": 9, "hdrpad": 4 - pad}]})
    # empty RLE runs (run length 0) at the start, in the middle and at the end of a stream
    for w in (1, 2, 3, 4):
        m = (1 << w) - 1
        lv = [1, m, 0, 1, m, 0, 1, m] + [m] * 10
        for si, segs in enumerate(([{"rle": False, "n": 8}, {"rle": True, "n": 0}, {"rle": True, "n": 10}],
                                   [{"rle": True, "n": 0}, {"rle": False, "n": 8}, {"rle": True, "n": 0}, {"rle": True, "n": 10}],
                                   [{"rle": False, "n": 8}, {"rle": True, "n": 10}, {"rle": True, "n": 0}],
                                   [{"rle": True, "n": 0}, {"rle": True, "n": 0}, {"rle": False, "n": 18}])):
            ops.append({"op": "dec", "w": w, "kind": "def" if si % 2 else "rep", "levels": lv, "segs": segs, "pad": (3 * si + 1) & m})
    # the empty level sequence (a page without values): a stream of no runs at all (length prefix 0), and of empty RLE runs only
    for w in (1, 2, 3, 4):
        for kind in ("def", "rep"):
            for segs in ([], [{"rle": True, "n": 0}], [{"rle": True, "n": 0, "hdrpad": 2}, {"rle": True, "n": 0}]):
                ops.append({"op": "dec", "w": w, "kind": kind, "levels": [], "segs": segs, "pad": w - 1})
    for w in (1, 2, 3, 4):
        for kind in ("def", "rep"):
            ops.append({"op": "decruns", "w": w, "kind": kind, "count": 1500 if q else 20000, "seed": ck.seed * 100 + w, "nruns": 5,
                        "runlens": BOUNDARY_RUNS[:-2] + [1000, 2000], "sample": 30 if q else 200})
    events = run_tool("coldrv", {"ops": ops}, "c07")
    sweeps = [e for e in events if e["ev"] in ("EncAll", "RunsAll")]
    mirror_n = sum(e["count"] for e in sweeps)
    ck.cov["mirror_evaluations"] = mirror_n
    ck.cov["evaluations"] = mirror_n + sum(1 for e in events if e["ev"] in ("Enc", "Dec"))
    ck.cov["distinct_nontrivial"] = sum(e.get("nontrivial", e["count"]) for e in sweeps)
    ck.cov["mirror_crosscheck_vectors"] = len(vectors)
    ck.cov["rule"] = ("encoder: every level sequence up to length %s (per width) and seeded run-structured sequences around the 8-value, 63-group and "
                      "multi-byte-header boundaries, encoded by the real encoder through NewOptionalField/DoWrite and judged 'well formed, decodes to the "
                      "input plus < 8 zero pads, exact length' (TLC on a sample, the TLC-cross-checked Go mirror on all); decoder: every legal "
                      "segmentation of every short sequence (TLC ExportBits) and seeded random segmentations of long ones (RLE runs of any length, "
                      "bit-packed runs up to 200 groups, non-minimal headers, junk padding) read through DoRead with a sentinel value section behind the "
                      "levels; non-trivial = sequences of at least 8 levels / all run-structured cases" % bounds)
    ck.cov["exhaustive"] = True
    verdicts, evs = judge_bits(ck, events, ["C07", "HARNESS"], "c07")
    drift = 0
    ck.cov["spec_drift"] = drift
    for e in events:
        if e["ev"] in ("Enc", "Dec") and len(ck.cov["samples"]) < 4 and len(e["levels"]) > 9:
            ck.sample({k: e[k] for k in ("ev", "w", "kind", "levels", "stream")})
    def bad(e):
        if e["ev"] in ("EncAll", "RunsAll"):
            return e["nbad"] > 0
        if e["ev"] == "Enc":
            return e["problem"] != "" or True
        if e["ev"] == "Dec":
            return e["problem"] != "" or e["out"] != e["levels"] or not e["restok"]
        return False
    if [v for v in verdicts if v["prop"] == "C07"]:
        # identify failing events precisely: sweeps carry their own bad cases; Enc events are re-judged by the mirror
        failing = []
        for e in events:
            if e["ev"] in ("EncAll", "RunsAll") and e["nbad"] > 0:
                for b in e["bad"]:
                    failing.append({"ev": e["ev"], "w": e["w"], "levels": b["levels"], "stream": b["stream"], "problem": b["problem"]})
            elif e["ev"] == "Dec" and (e["problem"] != "" or e["out"] != e["levels"] or not e["restok"]):
                failing.append(e)
            elif e["ev"] == "Enc" and e["problem"] != "":
                failing.append(e)
        conjs = sorted({v["conjunct"] for v in verdicts if v["prop"] == "C07"})
        if not failing:
            failing = [{"ev": "Enc", "w": 0, "levels": "see TLC verdicts", "conjuncts": conjs}]
        for e in failing[:8]:
            ck.report("w=%s %s %s" % (e.get("w"), e["ev"], json.dumps(e.get("levels"))[:160]), "+".join(conjs), {"event": e})
    ck.assumptions += ["bulk sweeps are judged by pq.DecodeStream, the Go mirror of Hybrid!Decode, cross-checked against TLC on exported vectors in this run",
                       "byte equality with the faithful encoder model (Hybrid!EncodeAll) is diagnostic (spec_drift), never a verdict"]
    ck.finish()


def c17():
    import subprocess
    from vlib import HARNESS, WORK, REPO, goenv
    ck = Check("C17", "model_checking")
    q = ck.quick()
    r = model_check("MC_Bitpack", {"Widths": "{1, 2, 3, 4}", "FullUpTo": 1 if q else 2, "Support": 2, "ByteSupport": 1, "BreakUnpack": "FALSE"},
                    ["UnpackPack", "PackUnpack", "InRange", "Decomposes"], workers=8, tag="mcbitpack", timeout=3000)
    ck.cov["states"], ck.cov["transitions"] = r["distinct"], r["states"]
    model_check("MC_Bitpack", {"Widths": "{3}", "FullUpTo": 0, "Support": 1, "ByteSupport": 1, "BreakUnpack": "TRUE"}, ["UnpackPack"],
                tag="mcbitpackneg", expect_violation="UnpackPack")
    ck.cov["negative_controls"] = ["MC_Bitpack with a broken Unpack: UnpackPack violated as required"]
    vectors = export_bits("vectors")
    # through the public column API: bit-packed runs holding exactly the exported groups are fed to the decoder (any group) and,
    # where the encoder bit-packs them (groups without 8 equal values), produced by the encoder
    ops = [{"op": "mirror", "vectors": vectors}]
    sel = vectors if not q else vectors[:: max(1, len(vectors) // 1500)]
    for i, v in enumerate(sel):
        ops.append({"op": "dec", "w": v["w"], "kind": "def" if i % 3 else "rep", "levels": v["vals"], "segs": [{"rle": False, "n": 8}], "pad": 0})
        if len(set(v["vals"])) > 1:
            ops.append({"op": "enc", "w": v["w"], "kind": "def", "levels": v["vals"]})
    for i in range(300 if q else 3000):
        w = 1 + i % 4
        vals = [ck.rng.randrange(1 << w) for _ in range(8 * (1 + i % 3))]
        ops.append({"op": "dec", "w": w, "kind": "def", "levels": vals, "segs": [{"rle": False, "n": len(vals)}], "pad": 0})
        ops.append({"op": "enc", "w": w, "kind": "def", "levels": vals})
    mirror = run_tool("coldrv", {"ops": ops}, "c17m")
    ck.cov["public_api_groups"] = sum(1 for e in mirror if e["ev"] in ("Enc", "Dec"))
    # in-package sweep through an overlay file (nothing is written into /repo)
    d = os.path.join(WORK, "overlay_c17")
    os.makedirs(d, exist_ok=True)
    src = open(os.path.join(HARNESS, "overlay", "bitpack_sweep_test.go.txt")).read()
    hy = open(os.path.join(HARNESS, "pq", "hybrid.go")).read()
    a = hy.index("// SpecPack packs eight")
    b = hy.index("// Run is one run of a hybrid stream.")
    mirror_src = hy[a:b].replace("SpecPack", "specPack").replace("SpecUnpack", "specUnpack")
    tf = os.path.join(d, "verif_sweep_test.go")
    open(tf, "w").write(src.replace("//MIRROR//", mirror_src))
    ov = os.path.join(d, "overlay.json")
    json.dump({"Replace": {os.path.join(REPO, "internal", "bitpack", "verif_sweep_test.go"): tf}}, open(ov, "w"))
    outp = os.path.join(d, "sweep.ndjson")
    cfgj = {"full": [1, 2, 3] if q else [1, 2, 3, 4], "sample": [4] if q else [], "n": 20000000, "seed": ck.seed, "out": outp, "emit": 1500 if q else 6000}
    env = goenv()
    env["VERIF_SWEEP"] = json.dumps(cfgj)
    r = subprocess.run(["go", "test", "-overlay", ov, "-vet=off", "-count=1", "-run", "TestVerifSweep", "-timeout", "60m", "./internal/bitpack"],
                       cwd=REPO, env=env, capture_output=True, text=True)
    if r.returncode != 0 or not os.path.exists(outp):
        raise HarnessError("overlay sweep failed: %s %s" % (r.stdout[-1500:], r.stderr[-1500:]))
    events = mirror + [json.loads(l) for l in open(outp) if l.strip()]
    sweeps = [e for e in events if e["ev"] == "Sweep"]
    ck.cov["mirror_evaluations"] = sum(e["count"] for e in sweeps)
    ck.cov["evaluations"] = ck.cov["mirror_evaluations"]
    ck.cov["distinct_nontrivial"] = sum(e["count"] for e in sweeps if e["exhaustive"]) + sum(1 for e in events if e["ev"] in ("Pack", "Unpack"))
    ck.cov["exhaustive"] = all(e["exhaustive"] for e in sweeps)
    ck.cov["sweeps"] = [{k: e[k] for k in ("w", "dir", "count", "nbad", "exhaustive")} for e in sweeps]
    ck.cov["mirror_crosscheck_vectors"] = len(vectors)
    ck.cov["rule"] = ("Pack and Unpack of internal/bitpack called in-package (go test -overlay) on EVERY group of eight w-bit values and every w-byte group "
                      "for the widths listed under 'sweeps' (seeded sample where not exhaustive), each compared with the TLC-cross-checked mirror of "
                      "Bitpack.tla and inverted; a sample of the real outputs is judged by TLC itself (TraceBits: Pack = spec layout, inverses); every "
                      "group is a distinct input, none is trivial")
    verdicts, evs = judge_bits(ck, events, ["C17", "HARNESS"], "c17")
    for e in events:
        if e["ev"] == "Pack" and len(ck.cov["samples"]) < 3 and e["w"] >= 3 and sum(e["vals"]) > 20:
            ck.sample(e)
    for e in sweeps:
        if e["nbad"]:
            ck.report("w=%d %s" % (e["w"], e["dir"]), "SweepClean", {"first": e["first"], "sweep": e})
    conjs = sorted({v["conjunct"] for v in verdicts if v["prop"] == "C17"} - {"SweepClean"})
    if conjs:
        badev = [e for e in events if (e["ev"] == "Dec" and (e["problem"] or e["out"] != e["levels"])) or (e["ev"] == "Enc" and e["problem"])]
        ck.report("group " + json.dumps((badev[0].get("levels") if badev else "see sweeps"))[:120], "+".join(conjs), {"verdicts": verdicts[:10], "events": badev[:5]})
    ck.assumptions += ["the w = 4 space (2^32 groups per direction) is swept exhaustively only in the thorough tier; quick samples 2*10^7 groups per direction",
                       "the mirror (harness/pq SpecPack/SpecUnpack) is a transliteration of Bitpack.tla and is checked against TLC-evaluated vectors in this run"]
    ck.finish()


CHECKS.update({"C07": c07, "C17": c17})


# =========================================================================== C04 / C18: foreign files
def export_comps(maxrows):
    from wfam import _export
    rows = _export("ExportForeign", {"OutFile": '"comps.ndjson"', "MaxRows": maxrows}, "comps.ndjson", tag="comps")
    return {r["n"]: sorted(r["comps"]) for r in rows}


SEG_POLICIES = ["greedy", "rle1", "bp", "bp8", "rand"]


def foreign_case(rng, rows, ncols, comps, force=None):
    """one physical encoding of the logical rows, chosen by the seeded rng (force pins some dimensions)"""
    n = len(rows)
    force = force or {}
    rgsplit = force.get("rgsplit") or rng.choice([c for c in comps[n] if len(c) <= 3])
    cols = []
    for ci in range(ncols):
        pages = [list(rng.choice(comps[k])) if k else [] for k in rgsplit]
        if rng.random() < 0.3:
            # a data page without any value is legal: put one at the start, in the middle or at the end of a chunk
            g = rng.randrange(len(pages))
            pages[g].insert(rng.randrange(len(pages[g]) + 1), 0)
        cols.append({"codec": force.get("codec") or rng.choice(CODECS), "literal": rng.random() < 0.4, "variant": rng.randrange(15), "pages": pages,
                     "seg": force.get("seg") or rng.choice(SEG_POLICIES), "pad": rng.randrange(16), "stats": rng.random() < 0.5,
                     "extras": rng.random() < 0.3, "absentbp": rng.random() < 0.4})
    return {"rows": rows, "rgsplit": rgsplit, "cols": cols, "extras": rng.random() < 0.5, "seed": rng.randrange(1 << 30),
            "fileoff": rng.choice(["start", "start", "zero", "end"])}


def c04():
    ck = Check("C04", "model_checking")
    q = ck.quick()
    mc_reader(ck, ["RoundTrip", "TypeOK"], "SingleReadPerPage", "FragmentationInvariant")
    r = model_check("MC_Segs", {"W": 1, "MaxLen": 7 if q else 9}, ["AllForeignOK"], workers=8, tag="mcsegs04", timeout=1500)
    ck.cov["states"] += r["distinct"]
    ck.cov["transitions"] += r["states"]
    progs = build_programs(fixed_programs())
    ok = usable(progs)
    if len(ok) != len(progs):
        raise HarnessError("fixed schema set does not build")
    load_schemas(ok)
    nmax = 5 if q else 6
    comps = export_comps(nmax)
    recs = export_records([(p.key, p.schema) for p in ok], 2, 60 if q else 300, ck.seed)
    distinct = set()
    for pi, p in enumerate(ok):
        cyc = rec_cycle(recs[p.key]["recs"], ck.seed + pi)
        ncols = len(p.cols)
        plans = []
        # every composition as row-group split and as page split at least once; every codec x segmentation policy
        for n in range(1, nmax + 1):
            for comp in comps[n]:
                if len(comp) <= 3:
                    plans.append((n, {"rgsplit": comp}))
        for codec in CODECS:
            for seg in SEG_POLICIES:
                plans.append((nmax, {"codec": codec, "seg": seg}))
        for _ in range(40 if q else 600):
            plans.append((ck.rng.randrange(1, nmax + 1), None))
        for n, force in plans:
            rows = [next(cyc) for _ in range(n)]
            fc = foreign_case(ck.rng, rows, ncols, comps, force)
            p.cases.append({"page": 1000, "codec": "snappy", "poff": ck.rng.randrange(16), "ops": [], "foreign": fc})
            ck.add("evaluations")
            distinct.add(json.dumps([p.key, fc["rgsplit"], [(c["codec"], c["seg"], c["pages"]) for c in fc["cols"]]]))
        # long level streams: many rows, so that runs cross the 8-value / 63-group boundaries
        for b in range(3 if q else 20):
            rows = [big_record(ck.rng, p.schema, 30, False) for _ in range(ck.rng.choice([70, 200, 600]))]
            k = len(rows)
            fc = {"rows": rows, "rgsplit": [k - k // 3, k // 3], "extras": True, "seed": ck.rng.randrange(1 << 30),
                  "cols": [{"codec": ck.rng.choice(CODECS), "literal": ck.rng.random() < 0.4, "variant": ck.rng.randrange(15),
                            "pages": ([[k - k // 3 - 5, 5], [k // 3]] if b % 3 else [[1] * (k - k // 3), [k // 3]]),   # every third file: one-record pages
                            "seg": ck.rng.choice(["rand", "bp", "rle1", "greedy"]), "pad": ck.rng.randrange(16), "stats": True, "extras": False}
                           for _ in range(ncols)]}
            p.cases.append({"page": 1000, "codec": "snappy", "poff": ck.rng.randrange(16), "ops": [], "foreign": fc, "reads": [{"mode": "chunk", "chunk": 7}]})
            ck.add("evaluations")
            distinct.add(json.dumps([p.key, "big", b]))
    ck.cov["distinct_nontrivial"] = len(distinct)
    ck.cov["rule"] = ("foreign files produced by the harness's own writer for the schemas of F: logical rows = TLC-exported record structures; physical choices "
                      "= every composition of n <= %d rows as row-group split (TLC ExportForeign), independent per-column page splits at record boundaries, "
                      "per-column codec (uncompressed/snappy literal-only/snappy with copies/gzip), level-run segmentation policy {greedy, one RLE run per level, "
                      "one big bit-packed run, one group per run, seeded random incl. > 63 groups and non-minimal headers}, junk padding, statistics and "
                      "optional/unknown thrift fields present or absent; plus files of 70-600 rows; every file is first parsed back by the independent parser; "
                      "distinct by (schema, row-group split, per-column codec/policy/page split)" % nmax)
    ck.cov["exhaustive"] = False
    run_programs(ok, "c04", timeout=1800)
    ck.sample({"schema": ok[0].key, "physical": {k: v for k, v in ok[0].cases[5]["foreign"].items() if k != "rows"}})
    judge_programs(ck, ok, ["C04", "HARNESS"], "c04",
                   describe=lambda p, c: "%s|%s" % (p.key, json.dumps({k: v for k, v in c["foreign"].items() if k != "rows"})[:400]))
    ck.assumptions += ["harness/pq.WriteFile + parser form the independent reference (parse(write(f)) = f is checked for every file); no third-party Parquet "
                       "implementation is available offline"]
    ck.finish()


def features_for(col):
    fs = ["dict", "dict-rle", "dict-plain", "index-before", "v2", "type-v2-with-dph", "type-index-with-dph", "type-dict-with-dph",
          "codec-lzo", "codec-brotli", "codec-lz4", "codec-zstd", "codec-lz4raw",
          "enc-future-4", "enc-future-10", "enc-future-64"]      # 4 = BIT_PACKED as value encoding, 10 / 64 = ids newer than the vendored enum
    if col["gotype"] in ("int32", "int64", "uint32", "uint64", "float32", "float64"):
        fs.append("enc-bss")
    if col["gotype"] == "string":
        fs.append("enc-delta-ba")
    if col["gotype"] == "bool":
        fs.append("enc-rle-bool")
    if col["gotype"] in ("int32", "int64", "uint32", "uint64"):
        fs.append("enc-delta")
    if col["gotype"] == "string":
        fs.append("enc-delta-length")
    if col["maxdef"] > 0:
        fs.append("def-bitpacked")
    if col["maxrep"] > 0:
        fs += ["rep-bitpacked", "levels-bitpacked"]
    return fs


TRAILING_FEATURES = ("v2", "index-before", "type-v2-with-dph", "type-index-with-dph", "type-dict-with-dph", "enc-future-10", "enc-bss", "enc-delta", "enc-delta-ba")


def c18():
    ck = Check("C18", "model_checking")
    q = ck.quick()
    mc_reader(ck, ["UnsupportedRefused", "TypeOK"], "AcceptUnsupported", "UnsupportedRefused")
    progs = build_programs(fixed_programs(["AllTypes", "Document", "BoolHeavy"] if q else None))
    ok = usable(progs)
    load_schemas(ok)
    recs = export_records([(p.key, p.schema) for p in ok], 2, 30, ck.seed)
    distinct = set()
    for pi, p in enumerate(ok):
        cyc = rec_cycle(recs[p.key]["recs"], ck.seed + pi)
        ncols = len(p.cols)
        for ci, col in enumerate(p.cols):
            for feat in features_for(col):
                for rg in (0, 1):
                    # page -1: an extra value-less page behind the chunk's last page carries the feature
                    for page in (0, 1) + ((-1,) if feat in TRAILING_FEATURES else ()):
                        if q and page >= 0 and (rg + page + ci + len(feat)) % 2 == 1 and feat not in ("dict",):
                            continue
                        if q and page < 0 and (rg + ci) % 2 == 1:
                            continue
                        rows = [next(cyc) for _ in range(4)]
                        codec = CODECS[(ci + rg + page) % 3]
                        if feat.startswith("codec-"):
                            codec = "uncompressed"
                        fc = {"rows": rows, "rgsplit": [2, 2], "extras": False, "seed": ci,
                              "cols": [{"codec": codec if i == ci else "snappy", "literal": False, "pages": [[1, 1], [1, 1]], "seg": "greedy", "pad": 0,
                                        "stats": False, "extras": False} for i in range(ncols)],
                              "unsup": {"rg": rg, "col": ci, "page": page, "feature": feat}}
                        p.cases.append({"page": 1000, "codec": "snappy", "poff": (ci + ck.seed) % 16, "ops": [], "foreign": fc})
                        ck.add("evaluations")
                        distinct.add((p.key, ci, feat, rg, page))
    ck.cov["distinct_nontrivial"] = len(distinct)
    ck.cov["rule"] = ("otherwise valid two-row-group, two-pages-per-chunk files of the schemas of F in which exactly one chunk (every column x both row groups x "
                      "both page positions) uses one unsupported feature applicable to that column: dictionary page + dictionary-encoded data pages, an index "
                      "page, DATA_PAGE_V2, pages typed v2/index/dictionary that still carry a data_page_header struct, value encodings RLE (bool) / DELTA_BINARY_PACKED (ints) / DELTA_LENGTH_BYTE_ARRAY (strings), BIT_PACKED levels, "
                      "codecs LZO/BROTLI/LZ4/ZSTD/LZ4_RAW (genuinely encoded content except LZO/BROTLI); page-level features also on an extra value-less page behind the chunk's last page; distinct by (schema, column, feature, row group, page)")
    ck.cov["exhaustive"] = not q
    run_programs(ok, "c18", timeout=1800)
    ck.sample({"schema": ok[0].key, "unsup": ok[0].cases[3]["foreign"]["unsup"]})
    judge_programs(ck, ok, ["C18", "HARNESS"], "c18",
                   describe=lambda p, c: "%s|col=%s|%s" % (p.key, ".".join(p.cols[c["foreign"]["unsup"]["col"]]["path"]), c["foreign"]["unsup"]["feature"]))
    ck.assumptions += ["rows of row groups before the affected one may be delivered; none from the affected row group or later",
                       "LZO and BROTLI bodies are not genuinely compressed (no encoder offline); the reader has no decoder for them and must refuse by codec id"]
    ck.finish()


CHECKS.update({"C04": c04, "C18": c18})


# =========================================================================== C16
def c16():
    ck = Check("C16", "model_checking")
    q = ck.quick()
    mc_layout(ck, 6 if q else 8)
    forests = export_shapes(3)
    uni = universe_programs(forests if not q else ck.rng.sample(forests, 40), toff_fn=lambda i, f: stable_toff(f))
    progs = fixed_programs() + hist_programs() + uni
    build_programs(progs)
    ok = usable(progs)
    load_schemas(ok)
    recs = export_records([(p.key, p.schema) for p in ok], 2, 12 if q else 40, ck.seed)
    words = [w for w in export_histories(5 if q else 7) if "a" in w]
    distinct = set()
    comps_cache = {}
    for p in ok:
        rr = recs[p.key]["recs"]
        p.cases = layout_cases(p, rr, ck.seed, light=True)
        if p.key.startswith("hist:"):
            cyc = rec_cycle(rr, ck.seed)
            for wi, w in enumerate(words):
                p.cases.append({"page": 1 + wi % 3, "codec": CODECS[wi % 3], "poff": wi % 16, "ops": ops_of(w, cyc), "light": True})
        for c in p.cases:
            c["intro"] = True
            ck.add("evaluations")
            h = history_key(p, c)
            if c["page"] < 1000 or h.count("w") > 1:
                distinct.add((h, c["page"], c["codec"]))
        # conformant files of other writers: optional header fields (crc on some pages only, statistics subsets, unknown fields),
        # other page splits, footers with optional fields and a page-index region
        if p.key.startswith("fixed:") or p.key.startswith("hist:"):
            comps = comps_cache.setdefault("c", export_comps(4))
            cyc = rec_cycle(rr, ck.seed + 3)
            for fi in range(6 if q else 30):
                n = 1 + fi % 4
                fc = foreign_case(ck.rng, [next(cyc) for _ in range(n)], len(p.cols), comps, {"rgsplit": [n]} if fi % 2 else None)
                fc["extras"] = fi % 3 != 2
                for col in fc["cols"]:
                    col["extras"] = fi % 3 != 1
                    col["stats"] = True
                    if fi % 2 == 0:
                        col["pages"] = [[1] * k for k in fc["rgsplit"]]      # one-record pages: several pages per chunk
                    # value-less pages at the start, in the middle and at the end of chunks (a trailing one is not part of the
                    # answer: PageHeadersAtOffset(offset, n) lists pages until n values are covered)
                    if fi % 3 == 0:
                        col["pages"] = [[0] + pg + [0] if gi % 2 == 0 else pg[:1] + [0] + pg[1:] for gi, pg in enumerate(col["pages"])]
                fc["reversechunks"] = fi % 3 == 1      # chunks stored in reverse schema order (offsets in the footer say where)
                p.cases.append({"page": 1000, "codec": "snappy", "poff": ck.rng.randrange(16), "ops": [], "foreign": fc, "intro": True})
                ck.add("evaluations")
                ck.add("foreign_files")
                distinct.add((p.key, "foreign", fi))
    ck.cov["distinct_nontrivial"] = len(distinct)
    ck.cov["rule"] = ("every file written by the programs of F, the history schemas (every Add/Write history up to the bound) and programs of the bounded grammar "
                      "in four layouts x codecs: ReadMetaData, PageHeaders and PageHeadersAtOffset (from every chunk offset with its value count and from "
                      "EVERY page offset with the remaining count, and call sequences on one reader) compared by TLC with the independent footer decode and "
                      "page walk; the same for conformant foreign files (crc on some pages only, statistics subsets, unknown fields, page-index region); non-trivial = more than "
                      "one page per chunk or more than one row group")
    ck.cov["exhaustive"] = False
    fdir = os.path.join(__import__("vlib").WORK, "c16files")
    os.makedirs(fdir, exist_ok=True)
    cli_progs = [p for p in ok if p.key.startswith("fixed:") or p.key.startswith("hist:")]
    for i, p in enumerate(cli_progs):
        for j, c in enumerate(p.cases[:4]):
            c["keepfile"] = os.path.join(fdir, "f%d_%d.parquet" % (i, j))
    run_programs(ok, "c16")
    for p in cli_progs:
        add_cli_events(ck, p)
    ck.sample({"program": ok[0].key, "calls": ["ReadMetaData", "PageHeaders", "PageHeadersAtOffset(chunk offset, num_values)", "PageHeadersAtOffset(page offset, remaining)"]})
    judge_programs(ck, ok, ["C16", "HARNESS"], "c16", describe=history_key_cfg)
    ck.assumptions += ["harness/pq footer decode and sequential page walk are the independent reference"]
    ck.finish()


ENUMS = {"type": {"BOOLEAN": 0, "INT32": 1, "INT64": 2, "INT96": 3, "FLOAT": 4, "DOUBLE": 5, "BYTE_ARRAY": 6, "FIXED_LEN_BYTE_ARRAY": 7},
         "rep": {"REQUIRED": 0, "OPTIONAL": 1, "REPEATED": 2},
         "ctype": {"UTF8": 0, "MAP": 1, "MAP_KEY_VALUE": 2, "LIST": 3, "ENUM": 4, "DECIMAL": 5, "DATE": 6, "TIME_MILLIS": 7, "TIME_MICROS": 8,
                   "TIMESTAMP_MILLIS": 9, "TIMESTAMP_MICROS": 10, "UINT_8": 11, "UINT_16": 12, "UINT_32": 13, "UINT_64": 14, "INT_8": 15, "INT_16": 16,
                   "INT_32": 17, "INT_64": 18, "JSON": 19, "BSON": 20, "INTERVAL": 21},
         "codec": {"UNCOMPRESSED": 0, "SNAPPY": 1, "GZIP": 2, "LZO": 3, "BROTLI": 4, "LZ4": 5, "ZSTD": 6, "LZ4_RAW": 7},
         "enc": {"PLAIN": 0, "PLAIN_DICTIONARY": 2, "RLE": 3, "BIT_PACKED": 4, "DELTA_BINARY_PACKED": 5, "DELTA_LENGTH_BYTE_ARRAY": 6, "DELTA_BYTE_ARRAY": 7,
                 "RLE_DICTIONARY": 8, "BYTE_STREAM_SPLIT": 9},
         "ptype": {"DATA_PAGE": 0, "INDEX_PAGE": 1, "DICTIONARY_PAGE": 2, "DATA_PAGE_V2": 3}}


def en(kind, v, default=-1):
    if v is None:
        return default
    if isinstance(v, int):
        return v
    return ENUMS[kind].get(v, -99)


def cli_meta(m):
    """the CLI's JSON FileMetaData in the shape of the driver's metaObsInd"""
    return {"version": m.get("version", -1), "numrows": m.get("num_rows", -1),
            "schema": [{"name": e.get("name", ""), "type": en("type", e.get("type")), "ctype": en("ctype", e.get("converted_type")),
                        "rep": en("rep", e.get("repetition_type")), "nch": e.get("num_children", -1)} for e in m.get("schema") or []],
            "rgs": [{"numrows": g.get("num_rows", -1), "tbs": g.get("total_byte_size", -1),
                     "cols": [{"fo": c.get("file_offset", -1), "path": ".".join((c.get("meta_data") or {}).get("path_in_schema") or []),
                               "type": en("type", (c.get("meta_data") or {}).get("type")), "codec": en("codec", (c.get("meta_data") or {}).get("codec")),
                               "nvals": (c.get("meta_data") or {}).get("num_values", -1), "tu": (c.get("meta_data") or {}).get("total_uncompressed_size", -1),
                               "tc": (c.get("meta_data") or {}).get("total_compressed_size", -1), "dpo": (c.get("meta_data") or {}).get("data_page_offset", -1)}
                              for c in g.get("columns") or []]} for g in m.get("row_groups") or []]}


def cli_hdr(h):
    import base64
    d = h.get("data_page_header")
    e = {"type": en("ptype", h.get("type")), "ulen": h.get("uncompressed_page_size", -1), "clen": h.get("compressed_page_size", -1), "nvals": -1, "enc": -1,
         "denc": -1, "renc": -1, "hasstats": False, "nullcount": -1, "min": "", "max": "", "hasmin": False, "hasmax": False,
         "hascrc": "crc" in h, "crc": h.get("crc", 0)}
    if d:
        e.update(nvals=d.get("num_values", -1), enc=en("enc", d.get("encoding")), denc=en("enc", d.get("definition_level_encoding")),
                 renc=en("enc", d.get("repetition_level_encoding")))
        st = d.get("statistics")
        if st is not None:
            e["hasstats"] = True
            if "null_count" in st:
                e["nullcount"] = st["null_count"]
            for k, hk, jk in (("min", "hasmin", "min_value"), ("max", "hasmax", "max_value")):
                if st.get(jk):
                    e[hk], e[k] = True, base64.b64decode(st[jk]).hex()
    return e


def add_cli_events(ck, p):
    """runs `parquetgen -parquet f -metadata` and `-pageheaders` on the files a program kept and adds a Cli event after each Intro event"""
    import subprocess
    from vlib import farm
    gen = farm().gen
    out, ci = [], -1
    for e in p.events:
        out.append(e)
        if e.get("ev") == "Reset":
            ci += 1
        if e.get("ev") == "Intro" and 0 <= ci < len(p.cases) and p.cases[ci].get("keepfile") and os.path.exists(p.cases[ci]["keepfile"]):
            f = p.cases[ci]["keepfile"]
            ev = {"ev": "Cli", "err": "", "meta": {}, "meta2": {}, "hdrs": [], "imeta": e["imeta"], "ipages": []}
            # json's omitempty drops zero-length min/max: compare those as absent on both sides
            for h in e["ipages"]:
                h = dict(h)
                for k, hk in (("min", "hasmin"), ("max", "hasmax")):
                    if h[k] == "":
                        h[hk] = False
                # an all-absent Statistics struct is printed as {} by the tool: hasstats stays comparable
                ev["ipages"].append(h)
            try:
                r1 = subprocess.run([gen, "-parquet", f, "-metadata"], capture_output=True, text=True, timeout=60)
                r2 = subprocess.run([gen, "-parquet", f, "-pageheaders"], capture_output=True, text=True, timeout=60)
                if r1.returncode != 0 or r2.returncode != 0:
                    ev["err"] = (r1.stderr + r2.stderr)[-300:] or "non-zero exit"
                else:
                    ev["meta"] = cli_meta(json.loads(r1.stdout))
                    j2 = json.loads(r2.stdout)
                    ev["meta2"] = cli_meta(j2.get("file_metadata") or {})
                    ev["hdrs"] = [cli_hdr(h) for h in j2.get("page_headers") or []]
            except Exception as ex:  # malformed output is the tool's problem, reported through the judge
                ev["err"] = "tool output not usable: %s" % ex
            out.append(ev)
            ck.add("cli_runs")
    p.events = out


CHECKS["C16"] = c16


# =========================================================================== C13
def export_schedules(ninst, maxsegs, steps):
    from wfam import _export
    rows = _export("ExportSched", {"OutFile": '"sched.ndjson"', "NInst": ninst, "MaxSegs": maxsegs, "Steps": "{" + ",".join(map(str, steps)) + "}"},
                   "sched.ndjson", tag="sched")
    s = rows[0]["schedules"]
    s.sort(key=lambda x: (len(x), x))
    return s


def c13():
    import subprocess
    from vlib import farm, run_driver
    ck = Check("C13", "model_checking")
    q = ck.quick()
    base = {"Inst": "{1, 2}", "NPages": 3, "NBuf": 3, "PutBeforeBodyWrite": "FALSE", "MayFail": "{1}", "DoublePutOnError": "FALSE", "MaxSwitches": 1000}
    r = model_check("MC_Pool", base, ["TypeOK", "NonInterference", "NoSharedOwnership"], workers=8, tag="mcpool", coverage=True)
    st, tr = r["distinct"], r["states"]
    ck.cov["spec_action_coverage"] = r["actions"]
    ck.cov["coverage_zero_actions"] = sorted(a for a, n in r["actions"].items() if n == 0)
    if not q:
        r = model_check("MC_Pool", dict(base, Inst="{1, 2, 3}", NPages=2, MaxSwitches=4), ["TypeOK", "NonInterference", "NoSharedOwnership"],
                        workers=8, tag="mcpool3", timeout=2400)
        st, tr = st + r["distinct"], tr + r["states"]
    ck.cov["states"], ck.cov["transitions"] = st, tr
    model_check("MC_Pool", dict(base, PutBeforeBodyWrite="TRUE"), ["NonInterference"], tag="mcpoolneg", expect_violation="NonInterference")
    # a buffer released twice sits in the pool twice: two other page writes get it at once (three instances, one page each)
    r = model_check("MC_Pool", dict(base, Inst="{1, 2, 3}", NPages=1), ["TypeOK", "NonInterference", "NoSharedOwnership"], workers=8, tag="mcpool3f")
    st, tr = st + r["distinct"], tr + r["states"]
    ck.cov["states"], ck.cov["transitions"] = st, tr
    model_check("MC_Pool", dict(base, Inst="{1, 2, 3}", NPages=1, DoublePutOnError="TRUE"), ["NonInterference"], tag="mcpoolneg2", expect_violation="NonInterference")
    ck.cov["negative_controls"] = ["MC_Pool with PutBeforeBodyWrite: NonInterference violated as required",
                                   "MC_Pool with DoublePutOnError (instance 1's header write may fail): NonInterference violated as required"]
    # state that outlives an instance without being handed over: a process-wide, lazily grown table every instance reads
    sb = {"Inst": "{1, 2, 3}", "Vals": "{0, 1}", "MaxRun": 3, "MaxRuns": 2, "AliasFirstRun": "FALSE", "GrowInPlace": "FALSE"}
    r = model_check("MC_SharedTable", sb, ["TypeOK", "OwnOutput", "TableTruthful"], workers=8, tag="mcshared", timeout=1500)
    ck.cov["states"], ck.cov["transitions"] = ck.cov["states"] + r["distinct"], ck.cov["transitions"] + r["states"]
    model_check("MC_SharedTable", dict(sb, AliasFirstRun="TRUE"), ["OwnOutput"], workers=8, tag="mcsharedneg1", expect_violation="OwnOutput")
    model_check("MC_SharedTable", dict(sb, GrowInPlace="TRUE", Inst="{1, 2}"), ["OwnOutput"], workers=8, tag="mcsharedneg2", expect_violation="OwnOutput")
    ck.cov["negative_controls"] += ["MC_SharedTable with AliasFirstRun (the first run's output is the table's prefix, the next run is appended in place): OwnOutput violated as required",
                                    "MC_SharedTable with GrowInPlace (growing an entry refreshes the others): OwnOutput violated as required"]
    progs = build_programs(fixed_programs(["Document", "AllTypes", "BoolHeavy"] if q else ["Document", "AllTypes", "BoolHeavy", "Person", "Deep"]))
    ok = usable(progs)
    load_schemas(ok)
    recs = export_records([(p.key, p.schema) for p in ok], 2, 30, ck.seed)
    scheds2 = export_schedules(2, 3 if q else 4, [1, 2, 3, 5, 8] if q else [1, 2, 3, 4, 5, 8, 13])
    scheds3 = export_schedules(3, 3, [1, 3, 7]) if not q else []
    ck.cov["schedules_exported"] = len(scheds2) + len(scheds3)
    distinct = set()

    def inst(p, cyc, kind, codec, page, n):
        rr = [next(cyc) for _ in range(n)]
        return {"kind": kind, "page": page, "codec": codec, "poff": ck.rng.randrange(16), "ops": ops_of("a" * (n - 1) + "w" + "aw", rr)}

    for pi, p in enumerate(ok):
        cyc = rec_cycle(recs[p.key]["recs"], ck.seed + pi)
        pick = scheds2 if q and len(scheds2) <= 400 else ck.rng.sample(scheds2, min(len(scheds2), 400 if q else 3000))
        for si, sch in enumerate(pick):
            kinds = [("w", "w"), ("w", "w"), ("w", "r"), ("w", "w"), ("r", "r"), ("w", "w"), ("r", "w")][si % 7]
            insts = [inst(p, cyc, kinds[0], CODECS[si % 3], 2, 4), inst(p, cyc, kinds[1], CODECS[(si // 3) % 3], 3, 5)]
            # a reader makes thousands of source calls: stretch its segments
            sch = [[i, n * (60 if kinds[i - 1] == "r" else 1)] for i, n in sch]
            p.cases.append({"page": 2, "codec": "snappy", "poff": 0, "ops": [], "sched": {"insts": insts, "schedule": sch, "prior": "dirty" if si % 2 else "clean"}})
            ck.add("evaluations")
            if len(sch) >= 2:
                distinct.add((p.key, json.dumps(sch), tuple(kinds), si % 2))
        # writers configured from ONE options slice (same page size and codec, NewParquetWriter(w, opts...)): the slice has spare
        # capacity, so a writer that appends to it writes into memory the other writers' option lists share
        for si, sch in enumerate(pick[:12 if q else 60]):
            codec, page = CODECS[si % 3], 1 + si % 3
            insts = [dict(inst(p, cyc, "w", codec, page, 5), sharedopts=True), dict(inst(p, cyc, "w", codec, page, 4), sharedopts=True)]
            p.cases.append({"page": 2, "codec": "snappy", "poff": 0, "ops": [], "sched": {"insts": insts, "schedule": sch, "prior": "clean"}})
            ck.add("evaluations")
            ck.add("shared_options_schedules")
            distinct.add((p.key, json.dumps(sch), "sharedopts"))
        # a writer whose destination starts failing at its k-th call, next to a healthy writer or reader: before it, after it has
        # written a row group, and interleaved (error paths must not leave shared state behind)
        ks = list(range(1, 12)) + ck.rng.sample(range(12, 60), 4 if q else 20)
        for fi, k in enumerate(ks):
            vk = "r" if fi % 4 == 3 else "w"
            failing = dict(inst(p, cyc, "w", CODECS[1 + fi % 2], 2, 4), failat=k)
            victim = inst(p, cyc, vk, CODECS[1 + (fi // 2) % 2] if fi % 5 else CODECS[0], 3, 5)
            stretch = 60 if vk == "r" else 1
            for sch in ([[1, 999], [2, 9999]], [[2, 7 * stretch], [1, 999], [2, 9999]], [[2, 3 * stretch], [1, k // 2 + 1], [2, 4 * stretch], [1, 999], [2, 9999]]):
                p.cases.append({"page": 2, "codec": "snappy", "poff": 0, "ops": [], "sched": {"insts": [failing, victim], "schedule": sch, "prior": "clean" if fi % 3 else "dirty"}})
                ck.add("evaluations")
                ck.add("failing_writer_schedules")
                distinct.add((p.key, "failat", k, vk, len(sch)))
        # a reader whose source fails once in the middle of a page (every codec, several positions), next to healthy readers
        for fi, k in enumerate([-j for j in range(2, 12)] + ck.rng.sample(range(10, 600), 4 if q else 20)):   # negative: the j-th page-body read
            codec = CODECS[1 + fi % 2] if fi % 4 else CODECS[0]
            failing = dict(inst(p, cyc, "r", codec, 2, 5), failat=k)
            victim = inst(p, cyc, "r", codec, 3, 5)
            for sch in ([[1, 99999], [2, 99999]], [[2, 120], [1, 99999], [2, 99999]]):
                p.cases.append({"page": 2, "codec": "snappy", "poff": 0, "ops": [], "sched": {"insts": [failing, victim], "schedule": sch, "prior": "clean"}})
                ck.add("evaluations")
                ck.add("failing_reader_schedules")
                distinct.add((p.key, "rfailat", k, codec, len(sch)))
        # long level runs: three instances one after the other whose pages hold 900-1000 records - all values present (A), 600
        # present then 300 absent (B), and A again (tables or buffers sized by, or filled for, an earlier instance's longer runs)
        def uniform(present, tok):
            def val(n):
                b = (lambda: [val(k) for k in n["kids"]]) if n["typ"] == "group" else (lambda: tok)
                return b() if n["rep"] == "req" else ([b()] if present else [])
            return [val(n) for n in p.schema]
        ra = [uniform(True, i % 16) for i in range(1000)]      # B's runs fit into what A's longer run left behind
        rb = [uniform(i < 600, i % 16) for i in range(900)]
        for kinds in (("r", "r", "r"), ("w", "w", "w"), ("w", "r", "r")):
            for codec in (CODECS if not q else CODECS[:1]):
                insts = [{"kind": k, "page": 2000, "codec": codec, "poff": 2, "ops": ops_of("a" * len(rr) + "w", rr)} for k, rr in zip(kinds, (ra, rb, ra))]
                p.cases.append({"page": 2, "codec": "snappy", "poff": 0, "ops": [], "sched": {"insts": insts, "schedule": [[1, 9999999], [2, 9999999], [3, 9999999]], "prior": "clean"}})
                ck.add("evaluations")
                ck.add("long_run_schedules")
                distinct.add((p.key, "longruns", kinds, codec))
        for si, sch in enumerate(scheds3[:: max(1, len(scheds3) // 300)] if scheds3 else []):
            insts = [inst(p, cyc, "w", CODECS[(si + k) % 3], 2, 4) for k in range(3)]
            p.cases.append({"page": 2, "codec": "snappy", "poff": 0, "ops": [], "sched": {"insts": insts, "schedule": sch, "prior": "dirty"}})
            ck.add("evaluations")
            distinct.add((p.key, json.dumps(sch), "www"))
    ck.cov["distinct_nontrivial"] = len(distinct)
    ck.cov["rule"] = ("schedules = sequences of up to %d segments <<instance, n calls>> exported by TLC (ExportSched), replayed with 2 (thorough: also 3) instances "
                      "of the real generated writer/reader on separate goroutines behind blocking sink/source gates under GOMAXPROCS(1), with clean and "
                      "deliberately dirtied buffer pools; every sink call of every instance is compared with the same call of its solo run; non-trivial = at "
                      "least one context switch; plus schedules in which one writer's destination fails from its k-th call on (k = 1..11 and seeded larger k) "
                      "before / between / interleaved with a healthy writer or reader, and schedules in which one reader's source fails once in the middle of a page "
                      "next to a healthy reader; plus a free-running parallel stress under the race detector" % (3 if q else 4))
    ck.cov["exhaustive"] = bool(q and len(scheds2) <= 400)
    # reference outputs: every instance alone, in a separate fresh process per program (nothing but earlier solo runs of the
    # same program has happened there); the replay process below is compared with these, so that state left behind by
    # OTHER tables, codecs or instances earlier in the replay process shows
    # the second, reversed pass over the solo runs (see the driver): every case in the quick tier; in the thorough tier the long-run,
    # failing-instance and shared-options cases and every fifth of the thousands of plain schedules (the pass doubles the
    # reference process' work)
    for p in ok:
        for k, c in enumerate(p.cases):
            sc = c["sched"]
            special = len(sc["insts"]) > 2 or any("failat" in i or i.get("sharedopts") for i in sc["insts"]) or (len(sc["schedule"]) > 0 and sc["schedule"][0][1] > 9000)
            sc["repeat"] = bool(q or special or k % 5 == 0)
    ck.cov["cases_with_repeated_solo_runs"] = sum(1 for p in ok for c in p.cases if c["sched"]["repeat"])
    run_programs(ok, "c13base", timeout=7200, env_extra={"VERIF_GOMAXPROCS": "1", "VERIF_SCHED_PHASE": "baseline"}, drop=False)
    for p in ok:
        k = -1
        for e in p.events:
            if e.get("ev") == "Reset":
                k += 1
            elif e.get("ev") == "Baseline" and 0 <= k < len(p.cases):
                p.cases[k]["sched"]["baseline"] = e["digests"]
                p.cases[k]["sched"]["unstable"] = e.get("unstable", [])
        if any("baseline" not in c["sched"] for c in p.cases):
            raise HarnessError("baseline process of %s did not cover every case" % p.key)
    run_programs(ok, "c13", timeout=7200, env_extra={"VERIF_GOMAXPROCS": "1"})
    sw = sum(e.get("switches", 0) for p in ok for e in p.events if e.get("ev") == "Sched")
    ck.cov["context_switches_replayed"] = sw
    ck.sample({"program": ok[0].key, "schedule": ok[0].cases[len(ok[0].cases) // 2]["sched"]["schedule"], "instances": "writer(snappy,page 2) || writer(gzip,page 3)"})
    judge_programs(ck, ok, ["C13", "HARNESS"], "c13",
                   describe=lambda p, c: "%s|%s|%s" % (p.key, json.dumps(c["sched"]["schedule"]), c["sched"]["prior"]),
                   confirm_program=True, env_extra={"VERIF_GOMAXPROCS": "1"}, max_report=3)
    # ---- data-race freedom: the race detector on a free-running stress (not decided by the specification)
    fm = farm()
    p0 = ok[0]
    rb = fm.build(p0.key, p0.src, race=True)
    race = {"built": rb["status"] == "ok", "races": 0}
    if rb["status"] != "ok":
        raise HarnessError("race build failed: " + rb["detail"])
    cyc = rec_cycle(recs[p0.key]["recs"], ck.seed)
    insts = [inst(p0, cyc, "w", CODECS[k % 3], 2 + k, 6) for k in range(3)] + [inst(p0, cyc, "r", "snappy", 2, 5)]
    job = {"cases": [{"id": "0:0", "page": 2, "codec": "snappy", "poff": 0, "ops": [], "sched": {"insts": insts, "schedule": [], "prior": "clean", "stress": 4 if q else 16}}]}
    d = rb["dir"]
    json.dump(job, open(os.path.join(d, "job_race.json"), "w"))
    rr = subprocess.run([os.path.join(d, "drv"), os.path.join(d, "job_race.json"), os.path.join(d, "ev_race.ndjson")], capture_output=True, text=True, timeout=1800)
    race["races"] = rr.stderr.count("WARNING: DATA RACE")
    evs = [json.loads(l) for l in open(os.path.join(d, "ev_race.ndjson")) if l.strip()]
    stress = [e for e in evs if e.get("ev") == "Stress"]
    if not stress:
        raise HarnessError("race stress produced no result: %s" % rr.stderr[-800:])
    race["runs"] = stress[0]["runs"]
    ck.cov["race_detector"] = race
    from vlib import judge
    v, _ = judge(evs, ["C13", "HARNESS"], tag="c13race", chunks=1)
    if race["races"] > 0:
        ck.report("race-stress:" + p0.key, "DataRace", {"stderr": rr.stderr[:3000]})
    for x in v:
        if x["prop"] == "C13":
            ck.report("race-stress:" + p0.key, x["conjunct"], {"events": stress})
    ck.assumptions += ["sync.Pool under GOMAXPROCS(1) hands the most recently released buffer to the next Get (self-tested in every replay; GC is off during a replay)",
                       "the harness can switch instances only at sink/source calls; the model interleaves at every pool operation (a superset)",
                       "data-race freedom is the race detector's verdict on the stress run, not the specification's"]
    ck.finish()


CHECKS["C13"] = c13


# =========================================================================== C15
SIGNED_TYPES = ["int32", "int64", "float32", "float64", "bool", "string"]


def decorate_signed(forest, toff):
    from vlib import decorate
    d = decorate(forest, 0)
    cnt = [0]

    def w(n):
        if n["typ"] != "group":
            n["typ"] = SIGNED_TYPES[(cnt[0] + toff) % 6]
            cnt[0] += 1
        for k in n["kids"]:
            w(k)
    for n in d:
        w(n)
    return d


def has_rep(forest):
    return any(n["rep"] == "rep" or has_rep(n.get("kids") or []) for n in forest)


def written_rows_ok(p, ci):
    """did the original program read back exactly what it wrote in case ci (otherwise it is a C05 matter)"""
    from wfam import split_cases
    for cid, evs in split_cases(p.events):
        if cid.endswith(":%d" % ci):
            adds = [e["rec"] for e in evs if e["ev"] == "Add"]
            rows = [e for e in evs if e["ev"] == "Rows"]
            rd = [e for e in evs if e["ev"] == "Read"]
            closed = [e for e in evs if e["ev"] == "Close" and e["res"] == "ok" and e.get("footer", {}).get("ok") and e["footer"].get("treeok")]
            if rd and rows and not rd[0]["panic"] and rd[0]["open"] == "ok" and not rd[0]["haserr"] and rows[rd[0]["rowsid"] - 1]["rows"] == adds and closed:
                return adds
    return None


def c15():
    from vlib import Check as _C, farm, render, run_driver, shape_key, WORK, judge
    from wfam import Program
    import concurrent.futures as cf
    ck = Check("C15", "translation_validation")
    q = ck.quick()
    forests = [f for f in export_shapes(4 if q else 5) if not has_rep(f)]
    if q:
        forests = ck.rng.sample(forests, 40)
    progs = []
    for i, f in enumerate(forests):
        d = decorate_signed(f, stable_toff(f))
        progs.append(Program(shape_key(d), render(d), d))
    # shapes beyond the node budget of the universe: deep chains of groups followed by siblings at every level, groups holding
    # several groups of different sizes followed by siblings (what a pre-order walk over num_children has to get right)
    def L(rep="req"):
        return {"rep": rep, "kids": []}

    def G(rep, *kids):
        return {"rep": rep, "kids": list(kids)}
    extra = [
        [G("req", G("req", G("req", L()))), L(), L("opt")],
        [G("opt", G("req", G("opt", G("req", L("opt")), L()), L()), L("opt")), L()],
        [G("req", G("req", L(), L("opt"), L()), G("opt", L())), L()],
        [G("opt", G("opt", L(), L()), G("req", L(), L(), L()), L()), G("req", G("req", L())), L("opt")],
        [L(), G("req", G("opt", G("opt", L()), L()), G("req", G("req", L("opt")))), L(), G("opt", L())],
        [G("req", G("req", G("req", G("req", G("req", L()))))), L()],
    ]
    for i, f in enumerate(extra):
        d = decorate_signed(f, i)
        progs.append(Program(shape_key(d), render(d), d))
    # plus a nested fixed example with tags and an embedded struct
    progs.append(Program("fixed:Nested", "package main\n\ntype L3 struct {\n\tV int64 `parquet:\"v\"`\n\tW *string\n}\n\ntype L2 struct {\n\tK  int32\n\tIn *L3 `parquet:\"in\"`\n\tOn bool\n}\n\ntype Flat struct {\n\tX float64\n\tY *float32\n}\n\n"
                         "type Rec struct {\n\tID  int64 `parquet:\"id\"`\n\tOpt *L2\n\tReq Flat\n\tS   string\n}\n"))
    # column names a file may carry: snake_case, camelCase, upper case, digits, Go keywords, names differing only in case
    progs.append(Program("fixed:Names", "package main\n\ntype Inner struct {\n\tLat  float64 `parquet:\"lat_deg\"`\n\tType *string `parquet:\"type\"`\n\tRange int64 `parquet:\"range\"`\n}\n\n"
                         "type Rec struct {\n\tID     int64   `parquet:\"id\"`\n\tAB     int32   `parquet:\"a_b\"`\n\tX1     *int64  `parquet:\"x1\"`\n\tFunc   string  `parquet:\"func\"`\n"
                         "\tLoc    *Inner  `parquet:\"loc_info\"`\n\tCamelC bool    `parquet:\"camelCase\"`\n\tUp     float32 `parquet:\"UPPER\"`\n\tMap    *bool   `parquet:\"map\"`\n"
                         "\tAbc    int32   `parquet:\"abc\"`\n\tABC2   int64   `parquet:\"aBC\"`\n}\n"))
    # group names that are prefixes of one another, in both orders, and of the root type's name
    progs.append(Program("fixed:PrefixNames", "package main\n\ntype HobbyInfo struct {\n\tLevel int32  `parquet:\"level\"`\n\tSince *int64 `parquet:\"since\"`\n}\n\n"
                         "type Hobby struct {\n\tName  string `parquet:\"name\"`\n\tYears *int32  `parquet:\"years\"`\n}\n\ntype Re struct {\n\tX float64 `parquet:\"x\"`\n}\n\n"
                         "type Hob struct {\n\tOn bool `parquet:\"on\"`\n}\n\n"
                         "type Rec struct {\n\tID   int64      `parquet:\"id\"`\n\tInfo *HobbyInfo `parquet:\"hobby_info\"`\n\tHobby Hobby     `parquet:\"hobby\"`\n\tRe   *Re        `parquet:\"re\"`\n"
                         "\tHob  Hob        `parquet:\"hob\"`\n\tZ    *string    `parquet:\"z\"`\n}\n"))
    build_programs(progs)
    ok = usable(progs)
    load_schemas(ok)
    recs = export_records([(p.key, p.schema) for p in ok], 2, 30 if q else 100, ck.seed)
    fdir = os.path.join(WORK, "c15files")
    os.makedirs(fdir, exist_ok=True)
    for i, p in enumerate(ok):
        rr = recs[p.key]["recs"]
        p.file = os.path.join(fdir, "f%d.parquet" % i)
        p.cases = [{"page": 3, "codec": CODECS[i % 3], "poff": (i + ck.seed) % 16, "ops": ops_of("a" * len(rr) + "w", rr), "reads": [{"mode": "plain"}],
                    "keepfile": p.file, "light": True}]
    run_programs(ok, "c15w")
    fm = farm()
    pseudo = []
    skipped = 0

    # what the output files hold before the run: an unrelated longer file, or the struct file of an earlier run for a file with the
    # same column names whose groups (leaves) had the other optionality (it has to be replaced all the same)
    modes = {}
    for i, p in enumerate(ok):
        grouped = "struct" in p.src.split("type Rec struct", 1)[0] or p.src.count(" struct {") > 1
        modes[p.key] = "junk" if i % 3 == 0 else ("groups" if grouped and i % 3 == 1 else "leaves")
    ck.cov["stale_output_files"] = {m: sum(1 for v in modes.values() if v == m) for m in ("junk", "groups", "leaves")}

    def regen(p):
        rows = written_rows_ok(p, 0)
        if rows is None:
            return None
        rb = fm.build_regen(p.key, p.file, modes[p.key])
        q2 = Program("regen:" + p.key, rb.get("struct", ""), None)
        q2.build = dict(rb)
        q2.orig = p
        if rb["status"] == "ok":
            case = {"id": "X", "page": 3, "codec": "snappy", "poff": p.cases[0]["poff"], "ops": [], "readfile": p.file, "expect": rows}
            q2.cases = [case]
        else:
            q2.cases = [{"id": "X", "failed": rb["status"]}]
        return q2

    with cf.ThreadPoolExecutor(max_workers=16) as ex:
        for q2 in ex.map(regen, ok):
            if q2 is None:
                skipped += 1
            else:
                pseudo.append(q2)
    ck.cov["programs"] = len(pseudo)
    ck.cov["skipped_original_program_broken_see_C05"] = skipped + len(progs) - len(ok)
    good = [x for x in pseudo if x.build["status"] == "ok"]
    run_programs(good, "c15r")
    # add the Regen event (original vs regenerated effective schema) to every trace
    for idx, x in enumerate(pseudo):
        if x.build["status"] == "ok":
            evs = []
            for e in x.events:
                evs.append(e)
                if e.get("ev") == "Reset":
                    evs.append({"ev": "Regen", "status": "ok", "orig": x.orig.schema, "regen": e["schema"]})
            x.events = evs
        else:
            x.build = dict(x.build, status="ok")  # so that judge_programs looks at the synthetic trace
            x.events = [{"ev": "Reset", "case": "%d:0" % idx, "schema": x.orig.schema, "cols": x.orig.cols, "max": 1, "codec": "snappy", "codecn": 1, "poff": 0},
                        {"ev": "Regen", "status": x.cases[0]["failed"], "orig": x.orig.schema, "regen": []}]
    # case ids must be '<index in pseudo>:0'
    for idx, x in enumerate(pseudo):
        for e in x.events:
            if e.get("ev") == "Reset":
                e["case"] = "%d:0" % idx
    ck.cov["disagreements_checked"] = 0
    ck.cov["rule"] = ("program = a schema without repeated nodes (signed/float/bool/string leaves, required and optional, nested groups) from the bounded grammar; "
                      "its generated writer writes TLC-exported records, `parquetgen -parquet` regenerates struct + reader from the file, the regenerated "
                      "package is compiled and reads the file; TLC compares the regenerated struct's effective schema with Dremel!Regen(original) and the rows")
    ck.cov["exhaustive"] = not q
    ck.sample({"original": pseudo[0].orig.src, "regenerated": pseudo[0].src})
    before = len(ck.violations) + len(ck.known_hit)
    judge_programs(ck, pseudo, ["C15", "HARNESS"], "c15", describe=lambda p, c: p.key, confirm=False)
    ck.cov["disagreements_checked"] = len(ck.violations) + len(ck.known_hit) - before
    ck.assumptions += ["names are compared through the parquet tags the regenerated struct carries; Go identifiers differ by strings.Title",
                       "original programs that do not round-trip their own file are C05's subject and are skipped"]
    ck.finish()


CHECKS["C15"] = c15


# =========================================================================== C14
EXCL_TYPES = ["int", "*int64", "[]string", "map[string]int", "chan int", "func(Arg int32) error", "struct{ Inner int32 }", "interface{}", "int32",
              "Other", "*Other", "[]Other", "[4]byte", "*struct{ A, B string }", "func() Other", "[]*Other"]
OTHER_SRC = "type Other struct {\n\tZ int64\n\tW *string\n\tq []int32\n}\n"


MIXIN_PAIRS = {
    # tags: a promoted field whose Go name equals the COLUMN name of a sibling of the embedding struct (and vice versa), at
    # the top level and inside a required nested struct
    "TagShadow": ("""package main

type Owner struct {
	Email string  `parquet:"email"`
	Phone *string `parquet:"phone"`
	Alias string  `parquet:"Email"`
	Rank  int32   `parquet:"rank"`
}

type Rec struct {
	ID      int64   `parquet:"id"`
	Name    string  `parquet:"name"`
	Version *int32  `parquet:"version"`
	Title   string  `parquet:"Name"`
	Score   float64 `parquet:"score"`
	Owner   Owner   `parquet:"owner"`
	Tags    []string `parquet:"tags"`
}
""", """package main

type Contact struct {
	Email string  `parquet:"email"`
	Phone *string `parquet:"phone"`
}

type Owner struct {
	Contact
	Alias string `parquet:"Email"`
	Rank  int32  `parquet:"rank"`
}

type Audit struct {
	Name    string `parquet:"name"`
	Version *int32 `parquet:"version"`
}

type Rec struct {
	ID int64 `parquet:"id"`
	Audit
	Title string   `parquet:"Name"`
	Score float64  `parquet:"score"`
	Owner Owner    `parquet:"owner"`
	Tags  []string `parquet:"tags"`
}
"""),
    # a long chain of embedded structs below several (required) nested groups: nine resolution hops, four schema levels
    "DeepChain": ("""package main

type Desk struct {
	Label string
	A1    int64
	A2    *int64
	A3    bool
	A4    *string
	Rev   int32
	Tag   *string
	Last  float64
}

type Room struct {
	No   int32
	Desk Desk
}

type Floor struct {
	Room Room
}

type Site struct {
	Floor Floor
	Name  string
}

type Rec struct {
	ID   int64
	Home Site
}
""", """package main

type E5 struct {
	Rev int32
	Tag *string
}

type E4 struct {
	A4 *string
	E5
}

type E3 struct {
	A3 bool
	E4
}

type E2 struct {
	A2 *int64
	E3
}

type E1 struct {
	A1 int64
	E2
}

type Desk struct {
	Label string
	E1
	Last float64
}

type Room struct {
	No   int32
	Desk Desk
}

type Floor struct {
	Room Room
}

type Site struct {
	Floor Floor
	Name  string
}

type Rec struct {
	ID   int64
	Home Site
}
"""),
    # the mixin in the root and in a repeated nested struct (not in first position there)
    "RootAndRepeated": ("""package main

type Item struct {
	Name    string
	Created int64
	Updated *int64
	Qty     int32
}

type Rec struct {
	Created int64
	Updated *int64
	ID      int64
	Items   []Item
}
""", """package main

type Audit struct {
	Created int64
	Updated *int64
}

type Item struct {
	Name string
	Audit
	Qty int32
}

type Rec struct {
	Audit
	ID    int64
	Items []Item
}
"""),
    # the mixin in two sibling nested structs
    "TwoSiblings": ("""package main

type GA struct {
	X int32
	K int64
	L *string
}

type GB struct {
	Y bool
	K int64
	L *string
}

type Rec struct {
	A *GA
	B GB
}
""", """package main

type M struct {
	K int64
	L *string
}

type GA struct {
	X int32
	M
}

type GB struct {
	Y bool
	M
}

type Rec struct {
	A *GA
	B GB
}
"""),
    # the mixin in the root and, last, in an optional nested struct
    "RootAndOptional": ("""package main

type T struct {
	P float64
	K int64
	L []string
}

type Rec struct {
	K  int64
	L  []string
	In *T
	Z  bool
}
""", """package main

type M struct {
	K int64
	L []string
}

type T struct {
	P float64
	M
}

type Rec struct {
	M
	In *T
	Z  bool
}
"""),
}


def render_deco(forest, outer_first=False):
    """Go source of a forest that may contain decoration nodes:
       {"excl": True, "gofield": "<name> <type> [`tag`]"}  and  {"emb": True, "kids": [...]}
       outer_first: Rec is declared first and every struct before the structs it uses (default: innermost first, Rec last)"""
    types = []
    cnt = [0, 0]

    def fields(kids):
        out = []
        for k in kids:
            if k.get("excl"):
                out.append("\t" + k["gofield"])
                continue
            if k.get("emb"):
                cnt[1] += 1
                tn = "E%d" % cnt[1]
                types.append("type %s struct {\n%s\n}\n" % (tn, fields(k["kids"])))
                out.append("\t" + tn)
                continue
            pre = {"req": "", "opt": "*", "rep": "[]"}[k["rep"]]
            if k["typ"] == "group":
                cnt[0] += 1
                tn = "T%d" % cnt[0]
                types.append("type %s struct {\n%s\n}\n" % (tn, fields(k["kids"])))
                out.append("\t%s %s%s" % (k["name"], pre, tn))
            else:
                out.append("\t%s %s%s" % (k["name"], pre, k["typ"]))
        return "\n".join(out)

    body = fields(forest)
    if outer_first:
        return "package main\n\ntype Rec struct {\n%s\n}\n\n" % body + "".join(reversed(types)) + OTHER_SRC
    return "package main\n\n" + OTHER_SRC + "".join(types) + "\ntype Rec struct {\n%s\n}\n" % body


def strip_deco(n):
    out = {"rep": n.get("rep", "req"), "kids": [strip_deco(k) for k in n.get("kids", [])]}
    for f in ("emb", "excl"):
        if n.get(f):
            out[f] = True
    return out


def excl_field(h):
    t = EXCL_TYPES[h % len(EXCL_TYPES)]
    style = (h // 16) % 6
    n = h % 1000
    if style == 0:
        return "hidden%d %s" % (n, t)
    if style == 1:
        return "Skip%d %s `parquet:\"-\"`" % (n, t)
    if style == 2:
        return "_pad%d %s" % (n, t)
    if style == 3:
        return "ähm%d %s `json:\"x\"`" % (n, t)
    if style == 4:
        return "Omit%d %s `json:\"x,omitempty\" parquet:\"-\"`" % (n, t)
    return "Omit%d %s `parquet:\"-\" yaml:\"n\"`" % (n, t)


def at_path(forest, path):
    kids = forest
    for i in path:
        kids = kids[i - 1]["kids"]
    return kids


def c14():
    import copy
    import hashlib
    from vlib import shape_key, WORK, decorate
    from wfam import Program, _export, split_cases
    ck = Check("C14", "translation_validation")
    q = ck.quick()
    r = model_check("MC_Deco", {"MaxNodes": 3 if q else 4, "ForgetHoist": "FALSE", "TwoSteps": "FALSE"}, ["ErasedIsBase", "SameColumns"], workers=8, tag="mcdeco")
    ck.cov["spec_states"] = r["distinct"]
    r = model_check("MC_Deco", {"MaxNodes": 3 if q else 4, "ForgetHoist": "FALSE", "TwoSteps": "TRUE"}, ["ErasedIsBase", "SameColumns"], workers=8, tag="mcdeco2")
    ck.cov["spec_states"] += r["distinct"]
    model_check("MC_Deco", {"MaxNodes": 3, "ForgetHoist": "TRUE", "TwoSteps": "FALSE"}, ["ErasedIsBase"], tag="mcdeconeg", expect_violation="ErasedIsBase")
    ck.cov["negative_controls"] = ["MC_Deco with an Erase that forgets to hoist embedded fields: ErasedIsBase violated as required"]
    # base programs: schemas of the bounded grammar that are fine on their own
    forests = export_shapes(3 if q else 4)
    cand = [decorate(f, stable_toff(f)) for f in forests]
    bases = [Program(shape_key(d), render_deco(d), d) for d in cand]
    # hand-written pairs: ONE struct type embedded at several places of the record tree (a mixin), which the one-type-per-site
    # decorations above never produce
    hand = [Program("hand:" + k, b, None) for k, (b, d) in sorted(MIXIN_PAIRS.items())]
    bases += hand
    build_programs(bases)
    bases = usable(bases)
    load_schemas(bases)
    recs = export_records([(p.key, p.schema) for p in bases], 2, 8, ck.seed)
    fdir = os.path.join(WORK, "c14files")
    os.makedirs(fdir, exist_ok=True)

    def cases_for(p, tag):
        rr = recs[p.basekey]["recs"] if hasattr(p, "basekey") else recs[p.key]["recs"]
        out = []
        for li, (page, hist) in enumerate(((1000, "a" * len(rr) + "w"), (2, "a" * max(1, len(rr) - 1) + "w" + "aw"))):
            out.append({"page": page, "codec": CODECS[(li + 1) % 3], "poff": 3, "ops": ops_of(hist, rec_cycle(rr, 0)), "reads": [{"mode": "plain"}],
                        "keepfile": os.path.join(fdir, "%s_%d.parquet" % (tag, li)), "light": True})
        return out

    for i, p in enumerate(bases):
        p.cases = cases_for(p, "b%d" % i)
    run_programs(bases, "c14b")
    # a base program must work on its own: not a listed C05 finding (the complete evaluation of the universe, independent of
    # the records sampled here) and round-tripping its own files in this run
    from vlib import load_known
    c05_bad = {k["key"] for k in load_known() if k.get("property") == "C05"}
    c14_bad = {k["key"] for k in load_known() if k.get("property") == "C14"}
    good = []
    for p in bases:
        if p.key not in c05_bad and all(written_rows_ok(p, ci) is not None for ci in range(len(p.cases))):
            good.append(p)
    ck.cov["base_programs"] = len(good)
    ck.cov["base_programs_skipped_broken_see_C05"] = len(forests) - len(good)
    hand_good = [p for p in good if p.forest is None]
    good = [p for p in good if p.forest is not None]
    if q:
        good = ck.rng.sample(good, min(len(good), 45))
    # decoration sites from TLC
    rows = _export("ExportDeco", {"SchemaFile": '"schemas.ndjson"', "OutFile": '"deco.ndjson"'}, "deco.ndjson", tag="deco",
                   files={"schemas.ndjson": "".join(json.dumps({"id": p.key, "schema": [strip(n) for n in p.forest]}) + "\n" for p in good)})
    sites = {r["id"]: r for r in rows}
    decos = []
    unsampled = []    # one-step decorations the quick tier does not run itself; they still seed the (tier-independent) choice of two-step ones
    import zlib
    for bi, p in enumerate(good):
        s = sites[p.key]
        excl = sorted(s["excl"])
        emb = sorted(s["embed"])
        run_excl, run_emb = excl, emb
        if q:
            run_excl = ck.rng.sample(excl, min(len(excl), 4))
            run_emb = ck.rng.sample(emb, min(len(emb), 2))
        for (path, pos) in excl:
            f = copy.deepcopy(p.forest)
            kids = at_path(f, path)
            # the decoration applied at a site is a fixed function of (base, site): keys are stable across tiers and seeds
            h = zlib.crc32(("%s|%s|%d" % (p.key, path, pos)).encode())
            gf = excl_field(h)
            kids.insert(pos, {"excl": True, "gofield": gf})
            (decos if [path, pos] in run_excl else unsampled).append((p, f, "excl %s at %s/%d" % (gf, path, pos)))
        # an EMBEDDED struct that is itself excluded (anonymous field tagged parquet:"-"): one site per base
        if excl:
            path, pos = sorted(excl, key=lambda x: zlib.crc32(("%s|embexcl|%s" % (p.key, x)).encode()))[0]
            f = copy.deepcopy(p.forest)
            at_path(f, path).insert(pos, {"excl": True, "gofield": "Other `parquet:\"-\"`"})
            decos.append((p, f, "excluded embedded struct Other at %s/%d" % (path, pos)))
        for (path, start, ln) in emb:
            f = copy.deepcopy(p.forest)
            kids = at_path(f, path)
            run = kids[start - 1:start - 1 + ln]
            kids[start - 1:start - 1 + ln] = [{"emb": True, "kids": run}]
            (decos if [path, start, ln] in run_emb else unsampled).append((p, f, "embed fields %d..%d of %s" % (start, start + ln - 1, path or "Rec")))
    # ---- second decoration step (MC_Deco TwoSteps): TLC gives the sites of the once-decorated structs; per base one step
    # inside the struct introduced by the first step (an embedded struct that itself embeds / holds an excluded field) and
    # one anywhere; these programs declare Rec first and every struct before the structs it uses
    by_base = {}
    for d in decos + unsampled:
        by_base.setdefault(d[0].key, []).append(d)
    firsts = []
    for key in sorted(by_base):
        ds = sorted(by_base[key], key=lambda d: zlib.crc32(d[2].encode()))
        # (the choice must not depend on the list of known findings, or regenerating that list would change the programs)
        emb1 = [d for d in ds if d[2].startswith("embed")]
        exc1 = [d for d in ds if d[2].startswith("excl")]
        firsts += emb1[:1 if q else 2] + exc1[:1]
    rows2 = _export("ExportDeco", {"SchemaFile": '"schemas.ndjson"', "OutFile": '"deco.ndjson"'}, "deco.ndjson", tag="deco2",
                    files={"schemas.ndjson": "".join(json.dumps({"id": str(i), "schema": [strip_deco(n) for n in f]}) + "\n"
                                                     for i, (p, f, what) in enumerate(firsts))})
    n_two = 0
    for r2 in rows2:
        p, f, what = firsts[int(r2["id"])]
        cands = [("excl", tuple(x)) for x in sorted(r2["excl"])] + [("embed", tuple(x)) for x in sorted(r2["embed"])]

        def inside(c):   # does the site lie within an embedded struct?
            kids = f
            for i in c[1][0]:
                if kids[i - 1].get("emb"):
                    return True
                kids = kids[i - 1]["kids"]
            return False
        order = sorted(cands, key=lambda c: zlib.crc32(("%s|%s|%s" % (p.key, what, c)).encode()))
        nested = [c for c in order if inside(c)]
        picks = nested[:2] + [c for c in order if not inside(c)][:1 if q else 2]
        for kind, site in picks:
            f2 = copy.deepcopy(f)
            kids = at_path(f2, site[0])
            if kind == "excl":
                gf = excl_field(zlib.crc32(("%s|%s|%s" % (p.key, what, site)).encode()))
                kids.insert(site[1], {"excl": True, "gofield": gf})
                w2 = "excl %s at %s/%d" % (gf, site[0], site[1])
            else:
                run = kids[site[1] - 1:site[1] - 1 + site[2]]
                kids[site[1] - 1:site[1] - 1 + site[2]] = [{"emb": True, "kids": run}]
                w2 = "embed fields %d..%d of %s" % (site[1], site[1] + site[2] - 1, site[0] or "Rec")
            decos.append((p, f2, "%s ; then %s ; declared outermost first" % (what, w2)))
            n_two += 1
    ck.cov["two_step_decorations"] = n_two
    dprogs = []
    for di, (p, f, what) in enumerate(decos):
        d = Program("%s || %s" % (p.key, what), render_deco(f, outer_first=what.endswith("declared outermost first")), f)
        d.basekey, d.base, d.what = p.key, p, what
        dprogs.append(d)
    for p in hand_good:
        d = Program("%s || the same struct type embedded at every place its fields occur" % p.key, MIXIN_PAIRS[p.key[5:]][1], None)
        d.basekey, d.base, d.what = p.key, p, "mixin"
        dprogs.append(d)
    ck.cov["mixin_pairs"] = len(hand_good)
    from wfam import build_and_run
    for i, d in enumerate(dprogs):
        d.cases = cases_for(d, "d%d" % i)
    build_and_run(dprogs, "c14d", drop=len(dprogs) > 400)
    ck.cov["programs"] = len(dprogs)
    # assemble one trace per decorated program: its own events plus a Pair event per case
    pseudo = []
    for idx, d in enumerate(dprogs):
        if d.build["status"] != "ok":
            d.events = [{"ev": "Reset", "case": "X", "schema": d.base.schema, "cols": d.base.cols, "max": 1, "codec": "snappy", "codecn": 1, "poff": 0},
                        {"ev": "Pair", "status": d.build["status"], "same": False, "baseschema": d.base.schema, "decoschema": []}]
            d.detail = d.build["detail"]
            d.build = dict(d.build, status="ok")
            d.cases = [{"failed": True}]
        else:
            evs = []
            ci = -1
            for e in d.events:
                if e.get("ev") == "Reset":
                    if ci >= 0:
                        evs.append(pair_event(d, ci))
                    ci += 1
                evs.append(e)
            if ci >= 0:
                evs.append(pair_event(d, ci))
            d.events = evs
        pseudo.append(d)
    for idx, d in enumerate(pseudo):
        k = 0
        for e in d.events:
            if e.get("ev") == "Reset":
                e["case"] = "%d:%d" % (idx, k)
                k += 1
    ck.cov["rule"] = ("pairs (plain program, decorated program): base = schemas of the bounded grammar that work on their own; decorations from TLC (ExportDeco): an "
                      "excluded field (unexported incl. _names and non-ASCII lower-case names, or tagged parquet:\"-\") of %d Go types at every position of every "
                      "struct, and every run of fields replaced by an embedded struct, plus a sample of two-step decorations (a second step inside the embedded struct "
                      "of the first - nested embedding, excluded field inside an embedded struct - or elsewhere; structs declared outermost first); both programs write the same TLC-exported records in two layouts; TLC "
                      "judges byte-identical files, unchanged effective schema, excluded fields zero after Scan" % len(EXCL_TYPES))
    ck.cov["exhaustive"] = not q
    ck.sample({"base": good[0].src, "decorated": dprogs[0].src, "decoration": dprogs[0].what})
    before = len(ck.violations) + len(ck.known_hit)
    judge_programs(ck, pseudo, ["C14", "HARNESS"], "c14", describe=lambda p, c: p.key, confirm=False, max_report=100000)
    ck.cov["disagreements_checked"] = len(ck.violations) + len(ck.known_hit) - before
    ck.assumptions += ["'unexported' follows the Go definition; embedded means embedding a struct value",
                       "excluded exported fields are given non-zero values before Add where reflection allows it"]
    ck.finish()


def strip(n):
    return {"rep": n["rep"], "kids": [strip(k) for k in n["kids"]]}


def pair_event(d, ci):
    bf = d.base.cases[ci]["keepfile"]
    df = d.cases[ci]["keepfile"]
    try:
        a, b = open(bf, "rb").read(), open(df, "rb").read()
        same = a == b and len(a) > 0
    except OSError:
        same = False
    return {"ev": "Pair", "status": "ok", "same": same, "baseschema": d.base.schema, "decoschema": d.schema_seen if hasattr(d, "schema_seen") else schema_from_events(d, ci)}


def schema_from_events(d, ci):
    k = -1
    for e in d.events:
        if e.get("ev") == "Reset":
            k += 1
            if k == ci:
                return e["schema"]
    return []


CHECKS["C14"] = c14


# =========================================================================== replay of a recorded violation
def replay(prop, path):
    """Re-executes the failing case recorded in a replay file on the current working tree."""
    import sys
    from vlib import farm, judge, run_driver
    d = json.load(open(path))
    r = d.get("replay", {})
    if "source" in r and isinstance(r.get("case"), dict) and "failed" not in r["case"]:
        b = farm().build("replay:" + d["key"], r["source"])
        if b["status"] != "ok":
            print("program does not build on this tree: %s\n%s" % (b["status"], b["detail"]))
            print("VIOLATION property=%s replay=%s" % (prop, path))
            sys.exit(1)
        c = dict(r["case"])
        c["id"] = "0:0"
        env = {"VERIF_GOMAXPROCS": "1"} if "sched" in c else None
        evs = run_driver(b, {"cases": [c]}, "replay", env_extra=env)
        dead = [e for e in evs if e.get("ev") == "DriverDied"]
        if dead:
            from wfam import FATAL_MARKS
            print("the driver process died: %s" % dead[0]["detail"][:600])
            if any(m in dead[0]["detail"] for m in FATAL_MARKS):
                print("VIOLATION property=%s replay=%s" % (prop, path))
                sys.exit(1)
            sys.exit(2)
        evs = [e for e in evs if e.get("ev") != "DriverDied"]
        vs, _ = judge(evs, [prop, "HARNESS"], tag="replay", chunks=1)
        vs = [v for v in vs if v["prop"] == prop]
        for v in vs:
            print("conjunct %s fails at event %d" % (v["conjunct"], v["line"]))
        if vs:
            print("VIOLATION property=%s replay=%s" % (prop, path))
            sys.exit(1)
        print("not reproduced on this tree: %s" % d.get("what"))
        sys.exit(0)
    print(json.dumps(d, indent=1)[:4000])
    print("this replay file records the failing input; re-run `bin/check %s` to re-evaluate it" % prop)
    sys.exit(0)
