"""The per-property checks.  Each function decides one property on /repo's
current working tree and writes its evidence file."""
import json
import os

from vlib import Check, HarnessError, log, model_check
from wfam import (build_programs, export_histories, export_records, export_shapes, fixed_programs, judge_programs,
                  load_schemas, ops_of, run_programs, universe_programs)

CODECS = ["uncompressed", "snappy", "gzip"]


def usable(progs):
    return [p for p in progs if p.build["status"] == "ok"]


# =========================================================================== C03
def c03():
    ck = Check("C03", "model_checking")
    q = ck.quick()
    # 1. the striping definition itself: model-checked, with a negative control
    mc = model_check("MC_Dremel", {"MaxNodes": 3 if q else 4, "MaxDepth": 3, "MaxKids": 3, "MaxList": 2},
                     ["InvRoundTrip", "InvLevels", "InvSiblings"], workers=8, timeout=1500, tag="mcdremel")
    ck.cov["states"], ck.cov["transitions"] = mc["distinct"], mc["states"]
    model_check("MC_Dremel", {"MaxNodes": 2, "MaxDepth": 2, "MaxKids": 2, "MaxList": 2}, ["BrokenInv"],
                tag="mcdremelneg", expect_violation="BrokenInv")
    ck.cov["negative_controls"] = ["MC_Dremel/BrokenInv violated as required"]
    # 2. programs: the fixed schema set F and every schema of the bounded grammar
    forests = export_shapes(3 if q else 4)
    progs = fixed_programs() + universe_programs(forests, toff_fn=lambda i, f: i + ck.seed)
    build_programs(progs)
    ok = usable(progs)
    ck.cov["programs_total"], ck.cov["programs_built"] = len(progs), len(ok)
    ck.cov["programs_not_buildable_see_C05"] = len(progs) - len(ok)
    load_schemas(ok)
    # 3. records: every structure with list lengths <= 2 (sampled by TLC when there are too many)
    recs = export_records([(p.key, p.schema) for p in ok], 2, 40 if q else 300, ck.seed)
    exhaustive = True
    for p in ok:
        r = recs[p.key]
        exhaustive = exhaustive and r["exhaustive"]
        rr = r["recs"]
        for page in (1000, 2, 1):
            p.cases.append({"page": page, "codec": CODECS[(len(p.cases) + ck.seed) % 3], "poff": (ck.seed * 7 + len(rr)) % 16,
                            "ops": ops_of("a" * len(rr) + "w", rr)})
        ck.add("evaluations", 3 * len(rr))
    run_programs(ok, "c03")
    nontrivial = set()
    for p in ok:
        for c in p.cases[:1]:
            for o in c["ops"]:
                if o["op"] == "add" and ("[]" in json.dumps(o["rec"]) or any(isinstance(x, list) for x in o["rec"])):
                    nontrivial.add(p.key + json.dumps(o["rec"]))
    ck.cov["distinct_nontrivial"] = len(nontrivial)
    ck.cov["rule"] = ("cases = (program, record) for every program of F and of the bounded grammar and every record structure with "
                      "list lengths <= 2 exported by TLC (ExportRecs; seeded sample when a schema has more than the cap), each "
                      "written with page sizes 1000, 2 and 1; non-trivial = the record has an optional or repeated node (a nil, "
                      "an empty or a non-empty list), counted as distinct (program, record) pairs")
    ck.cov["exhaustive"] = bool(exhaustive)
    for p in ok[:2] + ok[-2:]:
        ck.sample({"program": p.key, "record": p.cases[0]["ops"][min(3, len(p.cases[0]["ops"]) - 3)].get("rec"), "pages": [1000, 2, 1]})
    judge_programs(ck, ok, ["C03", "HARNESS"], "c03")
    ck.assumptions += ["the schema of a program is what Go reflection reports for its Rec type (documented exclusion/embedding rules applied)",
                       "harness/pq (thrift-compact, hybrid, PLAIN decoders) is the independent reader; cross-checked against TLC in C07/C17",
                       "programs parquetgen cannot generate or that do not compile are C05's subject and are skipped here"]
    ck.finish()


CHECKS = {"C03": c03}


# =========================================================================== shared: histories and layouts
HIST_SCHEMAS = {
    "ReqFirst": "package main\n\ntype Rec struct {\n\tID  int64\n\tOpt *int32\n\tS   string\n\tR   []bool\n}\n",
    "OptFirst": "package main\n\ntype In struct {\n\tA *int64\n\tB []string\n}\n\ntype Rec struct {\n\tOpt *int32\n\tID  int64\n\tG   *In\n}\n",
}


def hist_programs():
    from wfam import Program
    return [Program("hist:" + k, v) for k, v in HIST_SCHEMAS.items()]


def mc_layout(ck, max_ops, pages=(1, 2, 3)):
    """Model-checks the writer state machine (all Add/Write/Close histories up to
    max_ops calls, every page size) and runs its negative controls."""
    st = tr = 0
    base = {"NCols": 2, "MaxOps": max_ops, "FaultAt": "{}", "EmptyWriteEmitsPages": "FALSE",
            "FooterSkipsDroppedBytes": "FALSE", "FooterCountsAddedRows": "FALSE", "SwallowSinkError": "FALSE"}
    for mp in pages:
        c = dict(base, MaxPage=mp)
        r = model_check("MC_Layout", c, ["TypeOK", "FooterTruthful", "PagesLegal", "Framing", "EmptyWriteInert", "FaultReported"],
                        workers=8, tag="mclayout%d" % mp)
        st += r["distinct"]
        tr += r["states"]
    neg = []
    for name, sw in (("L1", {"EmptyWriteEmitsPages": "TRUE", "FooterSkipsDroppedBytes": "TRUE"}), ("L2", {"FooterCountsAddedRows": "TRUE"})):
        c = dict(base, MaxPage=2, MaxOps=6)
        c.update(sw)
        model_check("MC_Layout", c, ["FooterTruthful"], tag="mclayoutneg" + name, expect_violation="FooterTruthful")
        neg.append("MC_Layout with %s: FooterTruthful violated as required" % "+".join(sw))
    ck.cov["states"] = ck.cov.get("states", 0) + st
    ck.cov["transitions"] = ck.cov.get("transitions", 0) + tr
    ck.cov.setdefault("negative_controls", []).extend(neg)


def rec_cycle(recs, seed):
    """an endless, seed-dependent cycle through exported records"""
    i = seed
    while True:
        yield recs[i % len(recs)]
        i += 1


def history_key(p, case):
    h = "".join("a" if o["op"] == "add" else "w" if o["op"] == "write" else "c" for o in case["ops"])
    return "%s|%s" % (p.key, h)


def history_key_cfg(p, case):
    return "%s|page=%d|%s" % (history_key(p, case), case["page"], case["codec"])


# =========================================================================== C06
def c06():
    ck = Check("C06", "model_checking")
    q = ck.quick()
    n = 6 if q else 9
    mc_layout(ck, n + 1 if q else 10)
    words = export_histories(n)
    progs = build_programs(hist_programs())
    if len(usable(progs)) != len(progs):
        raise HarnessError("history schemas do not build: %s" % [p.build for p in progs if p.build["status"] != "ok"])
    load_schemas(progs)
    recs = export_records([(p.key, p.schema) for p in progs], 2, 60, ck.seed)
    distinct = set()
    for p in progs:
        cyc = rec_cycle(recs[p.key]["recs"], ck.seed)
        for wi, w in enumerate(words):
            for page in (1, 2, 3):
                codecs = CODECS if (q and len(w) <= 5) or not q else [CODECS[(wi + page + ck.seed) % 3]]
                for codec in codecs:
                    p.cases.append({"page": page, "codec": codec, "poff": (wi + ck.seed) % 16,
                                    "ops": ops_of(w, cyc), "reads": [{"mode": "plain"}]})
                    ck.add("evaluations")
                    pend, nontriv = 0, False
                    for ch in w:
                        if ch == "a":
                            pend += 1
                        else:
                            nontriv = nontriv or pend == 0 or pend >= page
                            pend = 0
                    if nontriv or pend > 0:
                        distinct.add((p.key, w, page, codec))
    ck.cov["distinct_nontrivial"] = len(distinct)
    ck.cov["rule"] = ("every word over {Add, Write} of length <= %d (TLC ExportHist, %d words) followed by Close x page size 1..3 x codecs x 2 "
                      "schemas (required-first, optional-first); non-trivial = the history has a Write with nothing pending, a batch of at "
                      "least the page size, or records pending at Close; distinct by (schema, word, page size, codec)" % (n, len(words)))
    ck.cov["exhaustive"] = True
    run_programs(progs, "c06", timeout=1800)
    for p in progs:
        ck.sample({"schema": p.key, "history": "aawwaaaw + Close", "page": 2})
    judge_programs(ck, progs, ["C06", "HARNESS"], "c06", describe=history_key)
    ck.assumptions += ["a history is replayed with records from TLC's ExportRecs; which records are used does not matter for this property"]
    ck.finish()


CHECKS["C06"] = c06


# =========================================================================== C02
def layout_cases(p, rr, seed, reads=None, light=False):
    """A spread of layouts for one program: one batch / small pages / several batches."""
    k = max(3, len(rr))
    third = max(1, k // 3)
    plans = [(1000, "a" * k + "w"), (2, "a" * k + "w"), (1, "a" * third + "w" + "a" * third + "w" + "a" * (k - 2 * third) + "w"),
             (3, "a" * (k - third) + "w" + "a" * third + "w")]
    out = []
    for i, (page, hist) in enumerate(plans):
        c = {"page": page, "codec": CODECS[(i + seed) % 3], "poff": (seed * 5 + i * 3) % 16, "ops": ops_of(hist, rec_cycle(rr, seed + i))}
        if reads:
            c["reads"] = reads
        if light:
            c["light"] = True
        out.append(c)
    return out


def c02():
    ck = Check("C02", "model_checking")
    q = ck.quick()
    mc_layout(ck, 6 if q else 9)
    forests = export_shapes(3 if q else 4)
    progs = fixed_programs() + hist_programs() + universe_programs(forests, toff_fn=lambda i, f: i + 3 * ck.seed)
    build_programs(progs)
    ok = usable(progs)
    ck.cov["programs_total"], ck.cov["programs_built"] = len(progs), len(ok)
    load_schemas(ok)
    recs = export_records([(p.key, p.schema) for p in ok], 2, 12 if q else 40, ck.seed)
    words = export_histories(5 if q else 7)
    distinct = set()
    for p in ok:
        rr = recs[p.key]["recs"]
        p.cases = layout_cases(p, rr, ck.seed)
        if p.key.startswith("hist:"):
            cyc = rec_cycle(rr, ck.seed)
            for wi, w in enumerate(words):
                p.cases.append({"page": 1 + wi % 3, "codec": CODECS[wi % 3], "poff": wi % 16, "ops": ops_of(w, cyc)})
        for c in p.cases:
            ck.add("evaluations")
            h = history_key(p, c)
            if c["page"] < 1000 or h.count("w") > 1:
                distinct.add((h, c["page"], c["codec"]))
    ck.cov["distinct_nontrivial"] = len(distinct)
    ck.cov["rule"] = ("files written by every program of F, the history schemas and the bounded grammar, with TLC-exported records in four "
                      "layouts (one batch; page size 2; three batches with page size 1; two batches with page size 3) and, for the history "
                      "schemas, every Add/Write history up to the bound; non-trivial = more than one page per chunk or more than one row "
                      "group; distinct by (program, history, page size, codec)")
    ck.cov["exhaustive"] = False
    run_programs(ok, "c02")
    ck.sample({"program": ok[0].key, "layouts": "a^k w | page 2 | three batches page 1 | two batches page 3"})
    ck.sample({"program": ok[-1].key, "case": ok[-1].cases[0]["ops"][:3]})
    judge_programs(ck, ok, ["C02", "HARNESS"], "c02")
    ck.assumptions += ["harness/pq is the independent Parquet/thrift-compact reader; pages are attributed to columns by consuming, per column "
                       "in schema order, pages until the batch's record count is reached (column chunks are contiguous by the format)",
                       "total_byte_size may be the compressed or the uncompressed sum; file_offset may be chunk start, chunk end or 0"]
    ck.finish()


CHECKS["C02"] = c02


# =========================================================================== C01
def compositions(words):
    """histories without empty writes that end in a Write: the splits of n records into non-empty batches"""
    out = []
    for w in words:
        if w and w[0] == "a" and w[-1] == "w" and "ww" not in w:
            out.append(w)
    return out


def big_record(rng, schema, max_list, big_strings):
    """A random record with long lists (and, rarely, a 70 kB string) - beyond the TLC bounds."""
    def val(n):
        def base():
            if n["typ"] == "group":
                return [val(k) for k in n["kids"]]
            if n["typ"] == "string" and big_strings and rng.random() < 0.02:
                return 999
            return rng.randrange(0, 16)
        if n["rep"] == "req":
            return base()
        if n["rep"] == "opt":
            return [] if rng.random() < 0.3 else [base()]
        m = rng.choice([0, 0, 1, 2, 3, 8, 9, rng.randrange(0, max_list)])
        return [base() for _ in range(m)]
    return [val(n) for n in schema]


def c01():
    ck = Check("C01", "model_checking")
    q = ck.quick()
    mc_layout(ck, 6 if q else 8)
    progs = build_programs(fixed_programs() + hist_programs())
    ok = usable(progs)
    if len(ok) != len(progs):
        raise HarnessError("fixed schema set does not build: %s" % [(p.key, p.build["detail"][:200]) for p in progs if p.build["status"] != "ok"])
    load_schemas(ok)
    nmax = 5 if q else 8
    words = compositions(export_histories(2 * nmax))
    words = [w for w in words if w.count("a") <= nmax]
    recs = export_records([(p.key, p.schema) for p in ok], 2, 60 if q else 300, ck.seed)
    distinct = set()
    for pi, p in enumerate(ok):
        cyc = rec_cycle(recs[p.key]["recs"], ck.seed + pi)
        for wi, w in enumerate(words):
            n = w.count("a")
            for page in sorted({1, 2, 3, 4, n + 1}):
                codecs = CODECS if not q else [CODECS[(wi + page + ck.seed) % 3]]
                for codec in codecs:
                    p.cases.append({"page": page, "codec": codec, "poff": (wi * 3 + page + ck.seed) % 16, "ops": ops_of(w, cyc),
                                    "mutate": (wi + page) % 2 == 0, "light": True,
                                    "reads": [{"mode": "plain"}, {"mode": "scanstable"}]})
                    ck.add("evaluations")
                    if w.count("w") > 1 or page <= n:
                        distinct.add((p.key, w, page, codec))
        # beyond the TLC bounds: seeded random workloads with long lists, many records, big pages
        for b in range(2 if q else 6):
            nrec = ck.rng.choice([9, 17, 64, 130] if q else [9, 64, 257, 1000, 3000])
            page = ck.rng.choice([1, 7, 8, 9, 64, 1000])
            rr = [big_record(ck.rng, p.schema, 40 if q else 300, b == 0) for _ in range(nrec)]
            cut = sorted(ck.rng.sample(range(1, nrec), min(2, nrec - 1)))
            hist = "a" * cut[0] + "w" + "a" * (cut[1] - cut[0]) + "w" + "a" * (nrec - cut[1]) + "w"
            p.cases.append({"page": page, "codec": CODECS[b % 3], "poff": ck.rng.randrange(16), "ops": ops_of(hist, rr), "light": True,
                            "mutate": True, "reads": [{"mode": "plain"}]})
            ck.add("evaluations")
            ck.add("random_big_workloads")
            distinct.add((p.key, "big", b, page))
    ck.cov["distinct_nontrivial"] = len(distinct)
    ck.cov["rule"] = ("for each schema of F (all 8 types x required/optional/repeated, nested, repeated and embedded groups): every split of "
                      "n <= %d records into non-empty batches (TLC ExportHist) x page size {1,2,3,4,n+1} x codec, records = TLC-exported structures "
                      "concretised from adversarial value pools (min/max ints, +-0, +-Inf, NaN payloads, empty/long/non-UTF8/sentinel strings), "
                      "half of the cases mutate the record after Add, every case is read twice (plain, and re-checking every scanned record after "
                      "each later Scan); plus seeded random workloads up to 3000 records, lists up to 300, 70 kB strings; non-trivial = more than "
                      "one batch or more than one page; distinct by (schema, split, page size, codec)" % nmax)
    ck.cov["exhaustive"] = False
    run_programs(ok, "c01", timeout=1800)
    ck.sample({"schema": "fixed:AllTypes", "split": "aawaaaw", "page": 2, "codec": "gzip", "mutate_after_add": True})
    ck.sample({"schema": ok[1].key, "record": ok[1].cases[0]["ops"][0].get("rec")})
    judge_programs(ck, ok, ["C01", "HARNESS"], "c01", describe=history_key_cfg)
    ck.assumptions += ["value fidelity is decided by mapping each concrete value read back to its pool token by bit pattern (Go, trusted base); "
                       "TLC compares token-carrying records"]
    ck.finish()


CHECKS["C01"] = c01
