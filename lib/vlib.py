"""Orchestration library for the parsyl/parquet verification framework.

TLC (model checking, case export, trace validation) + the build farm that
regenerates and recompiles every generated package from /repo's working tree +
known-findings handling + evidence files.  Standard library only.
"""
import atexit
import concurrent.futures as cf
import hashlib
import json
import os
import random
import re
import shutil
import subprocess
import sys
import time

VERIF = os.path.dirname(os.path.dirname(os.path.abspath(__file__)))
REPO = os.environ.get("VERIF_REPO", "/repo")
WORK = os.path.join(VERIF, "work")
SPEC = os.path.join(VERIF, "spec")
HARNESS = os.path.join(VERIF, "harness")
NCPU = os.cpu_count() or 4


import threading
_run_cache = [None]
_run_cache_lock = threading.Lock()


def base_gocache():
    return subprocess.run(["go", "env", "GOCACHE"], capture_output=True, text=True).stdout.strip() or os.path.expanduser("~/.cache/go-build")


def run_gocache():
    """The Go build cache used for generated packages: a hard-linked copy of the base cache (standard library and
    dependencies, warmed by bin/setup) that is deleted when the check exits, so that thousands of one-off main
    packages do not pile up in the user's cache."""
    with _run_cache_lock:
        return _run_gocache_locked()


def _run_gocache_locked():
    if _run_cache[0] is None:
        import atexit
        base = base_gocache()
        d = os.path.join(WORK, "gocache.%d" % os.getpid())
        shutil.rmtree(d, ignore_errors=True)
        os.makedirs(WORK, exist_ok=True)
        # stale caches of killed runs
        for x in os.listdir(WORK):
            if x.startswith("gocache."):
                try:
                    os.kill(int(x.split(".")[1]), 0)
                except (OSError, ValueError):
                    shutil.rmtree(os.path.join(WORK, x), ignore_errors=True)
        if os.path.isdir(base):
            r = subprocess.run(["cp", "-al", base, d], capture_output=True)
            if r.returncode != 0:
                shutil.rmtree(d, ignore_errors=True)
                shutil.copytree(base, d)
        else:
            os.makedirs(d)
        _run_cache[0] = d
        atexit.register(lambda: shutil.rmtree(d, ignore_errors=True))
    return _run_cache[0]


def goenv(scoped=True):
    e = dict(os.environ)
    e.update({"GOFLAGS": "-mod=mod", "GOPROXY": "off", "GOSUMDB": "off", "GOTOOLCHAIN": "local",
              "CGO_ENABLED": "0"})
    if scoped:
        e["GOCACHE"] = run_gocache()
    return e


class HarnessError(Exception):
    """Trouble in the machinery itself: exit 2, never a verdict."""


def log(*a):
    print(*a, file=sys.stderr, flush=True)


# --------------------------------------------------------------------------- tree id and farm

def _hash_tree(root, exts=(".go", ".mod", ".sum")):
    h = hashlib.sha256()
    for d, dirs, files in os.walk(root):
        dirs[:] = sorted(x for x in dirs if x not in (".git", "work"))
        for f in sorted(files):
            if f.endswith(exts):
                p = os.path.join(d, f)
                h.update(os.path.relpath(p, root).encode())
                with open(p, "rb") as fh:
                    h.update(fh.read())
    return h.hexdigest()[:16]


_farm = None


def _in_use(d):
    try:
        names = os.listdir(d)
    except OSError:
        return False
    for n in names:
        if n.startswith(".pid."):
            try:
                os.kill(int(n[5:]), 0)
                return True
            except (OSError, ValueError):
                pass
    return False


class Farm:
    """Everything built from one state of /repo (+ one state of the harness)."""

    def __init__(self):
        self.tid = _hash_tree(REPO) + "-" + _hash_tree(HARNESS)
        self.root = os.path.join(WORK, "farm", self.tid)
        base = os.path.join(WORK, "farm")
        os.makedirs(base, exist_ok=True)
        os.makedirs(self.root, exist_ok=True)
        mine = os.path.join(self.root, ".pid.%d" % os.getpid())
        open(mine, "w").close()
        atexit.register(lambda: os.path.exists(mine) and os.remove(mine))
        for d in os.listdir(base):  # prune what was built from other trees - unless a live check is still using it
            if d != self.tid and not _in_use(os.path.join(base, d)):
                shutil.rmtree(os.path.join(base, d), ignore_errors=True)
        self.gen = os.path.join(self.root, "parquetgen")
        self._prepare()

    def _prepare(self):
        marker = os.path.join(self.root, ".ready")
        if os.path.exists(marker):
            return
        r = subprocess.run(["go", "build", "-o", self.gen, "./cmd/parquetgen"], cwd=REPO, env=goenv(scoped=False),
                           capture_output=True, text=True)
        if r.returncode != 0:
            raise HarnessError("parquetgen does not build from the working tree:\n" + r.stderr[-3000:])
        with open(os.path.join(self.root, "go.mod"), "w") as f:
            f.write("module farm\n\ngo 1.20\n\nrequire (\n\tgithub.com/parsyl/parquet v0.0.0\n\tverifharness v0.0.0\n)\n\n"
                    "replace github.com/parsyl/parquet => %s\n\nreplace verifharness => %s\n" % (REPO, HARNESS))
        shutil.copy(os.path.join(REPO, "go.sum"), os.path.join(self.root, "go.sum"))
        # settle go.mod / go.sum once, serially, with a trivial package
        d = os.path.join(self.root, "_warm")
        os.makedirs(d, exist_ok=True)
        with open(os.path.join(d, "main.go"), "w") as f:
            f.write('package main\n\nimport (\n\t_ "github.com/parsyl/parquet"\n\t_ "verifharness/pq"\n)\n\nfunc main() {}\n')
        r = subprocess.run(["go", "build", "-o", os.path.join(d, "warm"), "."], cwd=d, env=goenv(scoped=False), capture_output=True, text=True)
        if r.returncode != 0:
            raise HarnessError("farm module does not build:\n" + r.stderr[-3000:])
        open(marker, "w").write("ok")

    def shape_dir(self, key):
        return os.path.join(self.root, "s_" + hashlib.sha1(key.encode()).hexdigest()[:20])

    def build(self, key, src, extra_files=None, race=False):
        """Generate and compile one program.  Returns a dict:
        status: ok | gen-fail | compile-fail | nondeterministic ; dir ; detail"""
        # the directory is keyed by the program's name AND its source (a hand-written program may change under the same name)
        d = self.shape_dir(key + "\n" + src) + ("_race" if race else "")
        st = os.path.join(d, "status.json")
        if os.path.exists(st):
            res = json.load(open(st))
            if res["status"] != "ok" or os.path.exists(os.path.join(d, "drv")):
                return res
            os.remove(st)  # the binary was dropped to save space: compile again
        os.makedirs(d, exist_ok=True)
        with open(os.path.join(d, "rec.go"), "w") as f:
            f.write(src)
        res = {"key": key, "dir": d, "status": "ok", "detail": ""}
        outs = []
        for i in range(2):  # "deterministically": two runs must agree byte for byte
            out = os.path.join(d, "parquet.go" if i == 0 else "parquet2.go.txt")
            r = subprocess.run([self.gen, "-input", "rec.go", "-type", "Rec", "-package", "main", "-output", out],
                               cwd=d, capture_output=True, text=True)
            if r.returncode != 0 or not os.path.exists(out):
                res.update(status="gen-fail", detail=(r.stderr or r.stdout)[-600:])
                break
            outs.append(open(out, "rb").read())
        if res["status"] == "ok" and outs[0] != outs[1]:
            res.update(status="nondeterministic", detail="two runs of parquetgen produced different output")
        if os.path.exists(os.path.join(d, "parquet2.go.txt")):
            os.remove(os.path.join(d, "parquet2.go.txt"))
        if res["status"] == "ok":
            for fn in os.listdir(os.path.join(HARNESS, "driver")):
                if fn.endswith(".go"):
                    shutil.copy(os.path.join(HARNESS, "driver", fn), os.path.join(d, fn))
            for name, content in (extra_files or {}).items():
                with open(os.path.join(d, name), "w") as f:
                    f.write(content)
            env = goenv()
            env["GOFLAGS"] = "-mod=readonly"
            cmd = ["go", "build", "-ldflags=-s -w", "-o", "drv"] + (["-race"] if race else []) + ["."]
            if race:
                env["CGO_ENABLED"] = "1"
            r = subprocess.run(cmd, cwd=d, env=env, capture_output=True, text=True)
            if r.returncode != 0:
                res.update(status="compile-fail", detail=r.stderr[-800:])
        json.dump(res, open(st, "w"))
        return res

    def build_regen(self, key, parquet_file, stale_mode="junk"):
        """C15: regenerate struct + reader/writer from a parquet file with `parquetgen -parquet`, compile with the driver.
        stale_mode: what the output files hold before the run - "junk" (a longer, unrelated file), "groups" / "leaves" (the struct file
        of an earlier run for a file with the same column names whose groups / leaves had the other optionality)."""
        d = self.shape_dir("regen:" + key)
        shutil.rmtree(d, ignore_errors=True)
        os.makedirs(d)
        res = {"key": "regen:" + key, "dir": d, "status": "ok", "detail": "", "stale_mode": stale_mode}
        cmd = [self.gen, "-parquet", parquet_file, "-type", "Rec", "-package", "main", "-output", "parquet.go", "-struct-output", "rec.go"]
        # the output files may exist already (an earlier run for a larger struct): they must be replaced, not overwritten in place
        junk = "package main\n\n// left over from an earlier run\n" + "".join("type Old%d struct {\n\tField%d int64 `parquet:\"field_%d\"`\n}\n\n" % (i, i, i) for i in range(120))
        stale = {"rec.go": junk, "parquet.go": junk}
        if stale_mode != "junk":
            r = subprocess.run(cmd, cwd=d, capture_output=True, text=True)
            try:
                stale["rec.go"] = flip_optionality(open(os.path.join(d, "rec.go")).read(), stale_mode)
            except OSError:
                pass                                   # the generator fails on this file: the run below reports it
            res["stale_struct"] = stale["rec.go"]
        for fn in ("rec.go", "parquet.go"):
            with open(os.path.join(d, fn), "w") as f:
                f.write(stale[fn])
        r = subprocess.run(cmd, cwd=d, capture_output=True, text=True)
        if r.returncode != 0 or not os.path.exists(os.path.join(d, "rec.go")) or not os.path.exists(os.path.join(d, "parquet.go")):
            res.update(status="gen-fail", detail=(r.stderr or r.stdout)[-600:])
            return res
        res["struct"] = open(os.path.join(d, "rec.go")).read()
        for fn in os.listdir(os.path.join(HARNESS, "driver")):
            if fn.endswith(".go"):
                shutil.copy(os.path.join(HARNESS, "driver", fn), os.path.join(d, fn))
        env = goenv()
        env["GOFLAGS"] = "-mod=readonly"
        r = subprocess.run(["go", "build", "-o", "drv", "."], cwd=d, env=env, capture_output=True, text=True)
        if r.returncode != 0:
            res.update(status="compile-fail", detail=r.stderr[-800:])
        return res

    def tool(self, name):
        """Builds harness/<name> (a main package that imports the library) inside the farm module."""
        d = os.path.join(self.root, "_" + name)
        exe = os.path.join(d, name)
        if os.path.exists(exe):
            return exe
        os.makedirs(d, exist_ok=True)
        for fn in os.listdir(os.path.join(HARNESS, name)):
            if fn.endswith(".go"):
                shutil.copy(os.path.join(HARNESS, name, fn), os.path.join(d, fn))
        env = goenv()
        env["GOFLAGS"] = "-mod=readonly"
        r = subprocess.run(["go", "build", "-o", exe, "."], cwd=d, env=env, capture_output=True, text=True)
        if r.returncode != 0:
            raise HarnessError("harness tool %s does not build against the working tree:\n%s" % (name, r.stderr[-2500:]))
        return exe

    def drop_binary(self, build):
        """frees the space of a compiled program (it is recompiled on demand)"""
        try:
            os.remove(os.path.join(build["dir"], "drv"))
        except OSError:
            pass

    def build_many(self, items, race=False):
        """items: list of (key, src).  Parallel."""
        with cf.ThreadPoolExecutor(max_workers=NCPU) as ex:
            return list(ex.map(lambda it: self.build(it[0], it[1], race=race), items))


def flip_optionality(struct_src, what):
    """The struct file `parquetgen -parquet` would have written for a file with the same column names in which every group
    (what == "groups") or every leaf (what == "leaves") has the other optionality (T <-> *T)."""
    import re
    groups = set(re.findall(r"^type (\w+) struct", struct_src, re.M))
    out = []
    for line in struct_src.split("\n"):
        m = re.match(r"^\t(\w+)(\s+)(\*?)(\w+)(\s+`parquet:.*)$", line)
        if m and ((m.group(4) in groups) == (what == "groups")):
            line = "\t%s%s%s%s%s" % (m.group(1), m.group(2), "" if m.group(3) else "*", m.group(4), m.group(5))
        out.append(line)
    return "\n".join(out)


def farm():
    global _farm
    if _farm is None:
        _farm = Farm()
    return _farm


def limit_memory():
    """backstop for the drivers' own runaway watchdog: a library call that allocates without bound must not take the machine down"""
    import resource
    gb = int(os.environ.get("VERIF_DRIVER_AS_GB", "24"))
    resource.setrlimit(resource.RLIMIT_AS, (gb << 30, gb << 30))


def run_driver(build, job, tag, timeout=600, env_extra=None):
    """Runs the compiled driver of one program on a job.  Returns the list of
    events; a crash/timeout of the driver process is reported as a synthetic
    event {ev: DriverDied} after whatever events it managed to write."""
    d = build["dir"]
    jp = os.path.join(d, "job_%s.json" % tag)
    ep = os.path.join(d, "ev_%s.ndjson" % tag)
    json.dump(job, open(jp, "w"))
    if os.path.exists(ep):
        os.remove(ep)
    env = dict(os.environ)
    env.update(env_extra or {})
    died = None
    try:
        r = subprocess.run([os.path.join(d, "drv"), jp, ep], cwd=d, capture_output=True, text=True, timeout=timeout, env=env,
                           preexec_fn=limit_memory)
        if r.returncode != 0:
            died = "exit %d: %s" % (r.returncode, r.stderr if len(r.stderr) < 2400 else r.stderr[:900] + "\n...\n" + r.stderr[-1400:])
    except subprocess.TimeoutExpired:
        died = "timeout after %ds" % timeout
    evs = []
    if os.path.exists(ep):
        with open(ep) as f:
            for line in f:
                line = line.strip()
                if line:
                    try:
                        evs.append(json.loads(line))
                    except json.JSONDecodeError:
                        pass
    if died:
        evs.append({"ev": "DriverDied", "detail": died})
    return evs


# --------------------------------------------------------------------------- TLC

_tlc_seq = [0]


def tlc(module, cfg_text, files=None, workers=1, timeout=900, extra_args=None, tag="tlc", seed=None, simulate=None):
    """Runs TLC in a scratch copy of spec/.  Returns dict(out, states, distinct, rc, wall)."""
    _tlc_seq[0] += 1
    d = os.path.join(WORK, "tlc", "%s_%d_%d" % (tag, os.getpid(), _tlc_seq[0]))
    shutil.rmtree(d, ignore_errors=True)
    os.makedirs(d)
    for fn in os.listdir(SPEC):
        if fn.endswith(".tla"):
            shutil.copy(os.path.join(SPEC, fn), d)
    for name, content in (files or {}).items():
        mode = "wb" if isinstance(content, bytes) else "w"
        with open(os.path.join(d, name), mode) as f:
            f.write(content)
    with open(os.path.join(d, "run.cfg"), "w") as f:
        f.write(cfg_text)
    cmd = ["tlc", "-workers", str(workers), "-metadir", os.path.join(d, "meta"), "-config", "run.cfg"]
    if seed is not None:
        cmd += ["-seed", str(seed)]
    if simulate:
        cmd += ["-simulate", simulate]
    cmd += (extra_args or []) + [module + ".tla"]
    env = dict(os.environ)
    env["JAVA_TOOL_OPTIONS"] = (env.get("JAVA_TOOL_OPTIONS", "") + " -Xss512m").strip()
    t0 = time.time()
    try:
        r = subprocess.run(cmd, cwd=d, capture_output=True, text=True, timeout=timeout, env=env)
        out, rc = r.stdout + r.stderr, r.returncode
    except subprocess.TimeoutExpired as e:
        out = (e.stdout.decode() if isinstance(e.stdout, bytes) else (e.stdout or "")) + "\nTLC TIMEOUT"
        rc = 124
        subprocess.run(["pkill", "-f", d], capture_output=True)
    res = {"out": out, "rc": rc, "dir": d, "wall": time.time() - t0, "states": 0, "distinct": 0}
    m = re.findall(r"(\d+) states generated, (\d+) distinct states found", out)
    if m:
        res["states"], res["distinct"] = int(m[-1][0]), int(m[-1][1])
    return res


def tlc_ok(res):
    return res["rc"] == 0 and "Model checking completed. No error has been found." in res["out"]


def cfg(consts, spec="Spec", invariants=(), post=None, constraint=None, props=(), view=None):
    lines = ["CONSTANTS"]
    for k, v in consts.items():
        lines.append("  %s = %s" % (k, v))
    lines.append("SPECIFICATION " + spec)
    if invariants:
        lines.append("INVARIANTS " + " ".join(invariants))
    if props:
        lines.append("PROPERTIES " + " ".join(props))
    if constraint:
        lines.append("CONSTRAINT " + constraint)
    if view:
        lines.append("VIEW " + view)
    if post:
        lines.append("POSTCONDITION " + post)
    lines.append("CHECK_DEADLOCK FALSE")
    return "\n".join(lines) + "\n"


def tla_set(items):
    return "{" + ", ".join('"%s"' % i for i in items) + "}"


ACTION_COV_RE = re.compile(r"^<(\w+) line \d+, col \d+ to line \d+, col \d+ of module (\w+)>: (\d+):(\d+)", re.M)


def model_check(module, consts, invariants, workers=8, timeout=900, tag="mc", expect_violation=None, coverage=False, **kw):
    """Model-checks a spec.  With expect_violation=<invariant name> the run is a
    negative control and MUST report that invariant violated.  With coverage=True TLC's per-action
    counts are returned in res["actions"] (action -> distinct states it produced)."""
    res = tlc(module, cfg(consts, invariants=invariants, **kw), workers=workers, timeout=timeout, tag=tag,
              extra_args=["-coverage", "1"] if coverage else None)
    if coverage:
        acts = {}
        for m in ACTION_COV_RE.finditer(res["out"]):
            acts[m.group(1)] = max(acts.get(m.group(1), 0), int(m.group(3)))
        res["actions"] = acts
    if expect_violation:
        if ("Invariant %s is violated" % expect_violation) not in res["out"]:
            raise HarnessError("negative control %s/%s: TLC did not report %s violated\n%s" %
                               (module, tag, expect_violation, res["out"][-1500:]))
        return res
    if not tlc_ok(res):
        raise HarnessError("model checking of %s (%s) failed:\n%s" % (module, tag, res["out"][-3000:]))
    return res


VERDICT_RE = re.compile(r'<<"VERDICT", "((?:[^"\\]|\\.)*)", (\d+), "([^"]*)", "([^"]*)">>')


def judge(events, props, module="TraceW", timeout=1800, tag="judge", chunks=None):
    """Trace validation: TLC judges the recorded events.  Returns
    (verdicts, stats): verdicts = list of dict(case, line, prop, conjunct)."""
    if not events:
        return [], {"events": 0, "cases": 0, "wall": 0.0, "tlc_states": 0, "drift": 0}
    # split into chunks at case boundaries and judge them in parallel TLC processes
    nchunks = chunks or max(1, min(NCPU, len(events) // 1500))
    bounds = [i for i, e in enumerate(events) if e.get("ev") == "Reset"]
    if not bounds or bounds[0] != 0:
        bounds = [0] + bounds
    per = max(1, len(bounds) // nchunks)
    cuts = [bounds[i] for i in range(0, len(bounds), per)][:nchunks] + [len(events)]
    parts = [events[cuts[i]:cuts[i + 1]] for i in range(len(cuts) - 1) if cuts[i] < cuts[i + 1]]
    t0 = time.time()

    def one(idx_part):
        idx, part = idx_part
        data = "\n".join(json.dumps(e, separators=(",", ":")) for e in part) + "\n"
        c = cfg({"TraceFile": '"trace.ndjson"', "Props": tla_set(props)}, post="AllConsumed")
        res = tlc(module, c, files={"trace.ndjson": data}, workers=1, timeout=timeout, tag="%s%d" % (tag, idx))
        out = res["out"]
        if not tlc_ok(res) or "TRACEDONE" not in out:
            raise HarnessError("trace validation failed to run to the end (%s, part %d, dir %s):\n%s" %
                               (tag, idx, res["dir"], out[-3000:]))
        vs = []
        seen = set()
        for m in VERDICT_RE.finditer(out):
            key = m.groups()
            if key in seen:
                continue
            seen.add(key)
            vs.append({"case": m.group(1), "line": int(m.group(2)), "prop": m.group(3), "conjunct": m.group(4)})
        shutil.rmtree(res["dir"], ignore_errors=True)
        return vs, res["distinct"], out.count('<<"DRIFT"')

    verdicts, states, drift = [], 0, 0
    with cf.ThreadPoolExecutor(max_workers=min(len(parts), NCPU)) as ex:
        for vs, st, dr in ex.map(one, list(enumerate(parts))):
            verdicts += vs
            states += st
            drift += dr
    ncases = sum(1 for e in events if e.get("ev") == "Reset")
    return verdicts, {"events": len(events), "cases": ncases, "wall": time.time() - t0, "tlc_states": states, "drift": drift}


# --------------------------------------------------------------------------- shapes

GO_TYPES = ["int32", "int64", "uint32", "uint64", "float32", "float64", "bool", "string"]


def decorate(forest, toff=0, shared_names=False):
    """Gives a structure-only forest (TLC export: nodes {rep, kids}) names and
    leaf types.  Leaf i (depth first) gets type (i + toff) mod 8."""
    cnt = {"leaf": 0, "node": 0}

    def walk(n, depth):
        i = cnt["node"]
        cnt["node"] += 1
        kids = n.get("kids") or []
        if not kids:
            t = GO_TYPES[(cnt["leaf"] + toff) % 8]
            cnt["leaf"] += 1
            name = ("F%d" % (depth if shared_names else i)) if shared_names else "F%d" % i
            if shared_names:
                name = "V%d" % (cnt["leaf"] % 2)
            return {"rep": n["rep"], "typ": t, "name": name, "kids": []}
        name = "G%d" % i if not shared_names else "X"
        return {"rep": n["rep"], "typ": "group", "name": name, "kids": [walk(k, depth + 1) for k in kids]}

    return [walk(n, 0) for n in forest]


def shape_key(forest):
    def w(n):
        pre = {"req": "", "opt": "*", "rep": "[]"}[n["rep"]]
        if n["typ"] == "group":
            return "%s %s{%s}" % (n["name"], pre, ";".join(w(k) for k in n["kids"]))
        return "%s %s%s" % (n["name"], pre, n["typ"])
    return "{" + ";".join(w(n) for n in forest) + "}"


def render(forest):
    """Go source of a decorated forest: type Rec plus one named type per group."""
    types = []
    cnt = [0]

    def fields(kids):
        out = []
        for k in kids:
            pre = {"req": "", "opt": "*", "rep": "[]"}[k["rep"]]
            if k["typ"] == "group":
                cnt[0] += 1
                tn = "T%d" % cnt[0]
                body = fields(k["kids"])
                types.append("type %s struct {\n%s\n}\n" % (tn, body))
                out.append("\t%s %s%s" % (k["name"], pre, tn))
            else:
                out.append("\t%s %s%s" % (k["name"], pre, k["typ"]))
        return "\n".join(out)

    body = fields(forest)
    return "package main\n\n" + "".join(types) + "\ntype Rec struct {\n%s\n}\n" % body


FIXED = {
    "AllTypes": """package main

type Rec struct {
	I32 int32
	I64 int64
	U32 uint32
	U64 uint64
	F32 float32
	F64 float64
	B   bool
	S   string

	OI32 *int32
	OI64 *int64
	OU32 *uint32
	OU64 *uint64
	OF32 *float32
	OF64 *float64
	OB   *bool
	OS   *string

	RI32 []int32
	RI64 []int64
	RU32 []uint32
	RU64 []uint64
	RF32 []float32
	RF64 []float64
	RB   []bool
	RS   []string
}
""",
    "Person": """package main

type Being struct {
	ID   int32  `parquet:"id"`
	Name string `parquet:"name"`
	Age  *int32 `parquet:"age"`
}
type Skill struct {
	Name       string
	Difficulty string
}
type Hobby struct {
	Name       string
	Difficulty *int32
	Skills     []Skill
}
type Rec struct {
	Being
	Happiness int64
	Code      *string
	Keen      *bool
	Secret    string `parquet:"-"`
	hidden    int32
	Hobby     *Hobby
	Friends   []Being
	Sleepy    bool
}
""",
    "Document": """package main

type Link struct {
	Backward []int64
	Forward  []int64
}
type Language struct {
	Code    string
	Country *string
}
type Name struct {
	Languages []Language
	URL       *string
}
type Rec struct {
	DocID int64
	Links *Link
	Names []Name
}
""",
    "Deep": """package main

type L3 struct {
	V int64
	W *string
}
type L2 struct {
	K  int32
	In *L3
}
type Rec struct {
	ID  int64
	Opt *L2
	Req L2
}
""",
    "BoolHeavy": """package main

type Flags struct {
	On  bool
	May *bool
	Set []bool
}
type Rec struct {
	A  bool
	B  *bool
	C  []bool
	F  *Flags
	Fs []Flags
	N  int32
}
""",
    "SameNames": """package main

type X struct {
	V *int32
	S string
}
type A struct {
	X X
	N *int64
}
type B struct {
	X *X
	N int64
}
type Rec struct {
	ID int64
	A  *A
	B  B
}
""",
    "Flat": """package main

type Rec struct {
	ID  int64
	Opt *int32
	S   string
}
""",
}


def _deep(n, leaves):
    """a chain of n optional groups: definition levels up to n+1 (3 and 4 bit level streams in real files)"""
    src = "package main\n\n"
    for i in range(n, 0, -1):
        inner = ("N%d *D%d" % (i + 1, i + 1)) if i < n else leaves
        src += "type D%d struct {\n\t%s\n}\n" % (i, inner)
    return src + "type Rec struct {\n\tID int64\n\tN1 *D1\n}\n"


# three nested repeated groups with a non-first leaf at the bottom: the generated reader places values by three list indices
FIXED["Rep3"] = """package main

type Reading struct {
	Seq   int64
	Value *int64
}
type Sensor struct {
	Readings []Reading
}
type Rack struct {
	Sensors []Sensor
}
type Rec struct {
	ID    int64
	Racks []Rack
}
"""
FIXED["Deep5"] = _deep(4, "V *int32\n\tW string\n\tR []bool")
FIXED["Deep15"] = _deep(14, "V *int32\n\tW string")
FIXED["Deep14R"] = _deep(13, "V *int64\n\tR []string")


def fixed_shapes(names=None):
    return [("fixed:" + n, FIXED[n]) for n in (names or FIXED.keys())]


def schema_of(build):
    """The effective schema of a built program, as the driver derives it from the
    Go type (Reset event of an empty case)."""
    evs = run_driver(build, {"cases": [{"id": "schema", "ops": []}]}, "schema", timeout=60)
    for e in evs:
        if e.get("ev") == "Reset":
            return e["schema"], e["cols"]
    raise HarnessError("driver of %s did not report its schema: %s" % (build["key"], evs[-1:]))


# --------------------------------------------------------------------------- known findings

def load_known():
    p = os.path.join(VERIF, "known_findings.jsonl")
    out = []
    if os.path.exists(p):
        for line in open(p):
            line = line.strip()
            if line and not line.startswith("#") and line.startswith("{"):
                out.append(json.loads(line))
    return out


# --------------------------------------------------------------------------- evidence and verdict output

class Check:
    def __init__(self, prop, level):
        self.prop = prop
        self.level = level
        self.tier = os.environ.get("VERIF_TIER", "quick")
        for i, a in enumerate(sys.argv):
            if a == "--tier" and i + 1 < len(sys.argv):
                self.tier = sys.argv[i + 1]
        if self.tier not in ("quick", "thorough"):
            self.tier = "quick"
        try:
            self.seed = int(os.environ.get("VERIF_SEED", "1"))
        except ValueError:
            self.seed = 1
        self.rng = random.Random(self.seed)
        self.t0 = time.time()
        self.cov = {"samples": []}
        self.assumptions = []
        self.violations = []   # dict(key, what, replay)
        self.known_hit = []
        self.known = [k for k in load_known() if k.get("property") == prop and k.get("status", "known") == "known"]
        self.emit_path = None
        for i, a in enumerate(sys.argv):
            if a == "--emit-findings" and i + 1 < len(sys.argv):
                self.emit_path = sys.argv[i + 1]
                open(self.emit_path, "w").close()
        os.makedirs(os.path.join(WORK, "replay"), exist_ok=True)

    def is_known(self, key, what):
        """A listed finding matches a failure of the same input (key) that fails in the
        listed way (entry 'what' empty, or contained in the observed failure)."""
        for k in self.known:
            if k.get("key") == key and (not k.get("what") or k["what"] in what):
                return k
        return None

    def quick(self):
        return self.tier == "quick"

    def add(self, key, n=1):
        self.cov[key] = self.cov.get(key, 0) + n

    def sample(self, s, cap=6):
        if len(self.cov["samples"]) < cap:
            self.cov["samples"].append(s)

    def report(self, key, what, replay_obj):
        """A reproduced disagreement between the real code and the specification.
        key identifies the failing input; listed findings are printed as such."""
        if self.emit_path:
            with open(self.emit_path, "a") as f:
                f.write(json.dumps({"property": self.prop, "key": key, "what": what, "status": "known"}, ensure_ascii=False) + "\n")
        k = self.is_known(key, what)
        if k is not None:
            if key not in [x["key"] for x in self.known_hit]:
                self.known_hit.append({"key": key, "what": what})
                print("KNOWN-FINDING: property=%s %s :: %s" % (self.prop, key, k.get("note", what)), flush=True)
            return
        if any(v["key"] == key and v["what"] == what for v in self.violations):
            return
        safe = re.sub(r"[^A-Za-z0-9_.-]+", "_", key)[:80]
        path = os.path.join(WORK, "replay", "%s-%s-%s.json" % (self.prop, safe, hashlib.sha1((key + what).encode()).hexdigest()[:8]))
        json.dump({"property": self.prop, "key": key, "what": what, "seed": self.seed, "tier": self.tier, "replay": replay_obj},
                  open(path, "w"), indent=1, default=str)
        self.violations.append({"key": key, "what": what, "replay": path})
        print("VIOLATION property=%s replay=%s" % (self.prop, path), flush=True)
        log("  violation: %s :: %s" % (key, what))

    def finish(self):
        ev = {"property_id": self.prop, "tier": self.tier, "seed": self.seed, "level": self.level,
              "coverage": self.cov, "assumptions": self.assumptions, "wall_s": round(time.time() - self.t0, 2),
              "violations": len(self.violations)}
        self.cov["known_findings_hit"] = self.known_hit
        os.makedirs(os.path.join(VERIF, "evidence"), exist_ok=True)
        json.dump(ev, open(os.path.join(VERIF, "evidence", self.prop + ".json"), "w"), indent=1, default=str)
        log("%s %s: %d violations, %d known findings, %.1fs" % (self.prop, self.tier, len(self.violations), len(self.known_hit), time.time() - self.t0))
        if not self.violations and self.cov.get("unreproduced"):
            # a verdict that a fresh process does not reproduce is neither a violation nor a pass
            log("HARNESS ERROR: %s" % self.cov["unreproduced"][0])
            sys.exit(2)
        sys.exit(1 if self.violations else 0)


def main_guard(fn):
    try:
        fn()
    except HarnessError as e:
        log("HARNESS ERROR: %s" % e)
        sys.exit(2)
