package pq

import (
	"bytes"
	"compress/gzip"
	"encoding/binary"
	"fmt"
	"hash/crc32"
	"math"
	"time"

	"github.com/golang/snappy"
)

// Foreign writer: emits the bytes of a Parquet file from an explicit physical
// description (the AnyWriter relation of spec/Foreign.tla): per column chunk a
// codec and a list of pages, per page the level entries, the values, the run
// segmentation of each level stream, and optionally one unsupported feature.

// PageSpec describes one data page.
type PageSpec struct {
	Reps, Defs []uint8
	Values     []Val
	RepSegs    []Seg // nil = greedy
	DefSegs    []Seg
	Pad        uint8 // junk used to pad the last bit-packed group
	Stats      bool  // write a Statistics struct (null_count only; min/max are not needed by readers)
	Extras     bool  // add optional thrift fields a reader must skip (crc, unknown field)
	// AbsentBP: a level stream the column does not have (max level 0) is labelled BIT_PACKED in the page header and the chunk's
	// encodings list, as parquet-mr does in every v1 file (legal: there is no such stream, the label describes nothing)
	AbsentBP bool
	Feature  string
	// Feature: "" | "v2" | "index-before" | "enc-rle-bool" | "enc-delta" | "enc-delta-length" |
	//          "levels-bitpacked" | "def-bitpacked" | "rep-bitpacked" | "dict" (chunk-level, see ChunkSpec)
}

// ChunkSpec describes one column chunk.
type ChunkSpec struct {
	Col     Column
	Codec   int // codec id written to the footer and used for the bodies
	Pages   []PageSpec
	Literal bool   // snappy: literal-only blocks instead of the reference encoder's copies
	Variant int    // further legal choices of the compressor (see CompressV): copy element kinds, gzip header fields / block types / members
	Feature string // "" | "dict" | "codec-lzo" | "codec-brotli" | "codec-lz4" | "codec-zstd" | "codec-lz4raw"
}

type RGSpec struct {
	NumRows int64
	Chunks  []ChunkSpec
}

type FileSpec struct {
	Schema    []SchemaElem
	RowGroups []RGSpec
	Extras    bool // optional footer fields: created_by, key_value_metadata, column_orders
	// FileOffset: what ColumnChunk.file_offset holds - "start" (first page of the chunk), "zero" (newer writers) or
	// "end" (older writers stored the position of the chunk's trailing metadata); readers must go by data_page_offset
	FileOffset string
	LongForm   bool // thrift field headers with explicit ids instead of deltas
	// ReverseChunks: the chunks of every row group are stored in reverse schema order (legal: the footer's offsets say where
	// each one is).  Outside the subset the generated READER supports; used for the introspection calls only.
	ReverseChunks bool
}

// PlainEncode encodes values of a physical type.
func PlainEncode(typ int, vals []Val) []byte {
	var out []byte
	switch typ {
	case TypeBoolean:
		out = make([]byte, (len(vals)+7)/8)
		for i, v := range vals {
			if v.Bits&1 == 1 {
				out[i/8] |= 1 << uint(i%8)
			}
		}
	case TypeInt32, TypeFloat:
		for _, v := range vals {
			var b [4]byte
			binary.LittleEndian.PutUint32(b[:], uint32(v.Bits))
			out = append(out, b[:]...)
		}
	case TypeInt64, TypeDouble:
		for _, v := range vals {
			var b [8]byte
			binary.LittleEndian.PutUint64(b[:], v.Bits)
			out = append(out, b[:]...)
		}
	case TypeByteArray:
		for _, v := range vals {
			var b [4]byte
			binary.LittleEndian.PutUint32(b[:], uint32(len(v.Bytes)))
			out = append(out, b[:]...)
			out = append(out, v.Bytes...)
		}
	}
	return out
}

// snappyLiteral encodes data as a snappy block made of literal elements only.
func snappyLiteral(data []byte) []byte {
	out := LEB128(uint64(len(data)))
	for len(data) > 0 {
		n := len(data)
		if n > 60000 {
			n = 60000
		}
		switch {
		case n <= 60:
			out = append(out, byte(n-1)<<2)
		case n <= 256:
			out = append(out, 60<<2, byte(n-1))
		default:
			out = append(out, 61<<2, byte(n-1), byte((n-1)>>8))
		}
		out = append(out, data[:n]...)
		data = data[n:]
	}
	return out
}

// snappyCopies is a small LZ77 encoder that cycles through all three copy element kinds (1-, 2- and 4-byte offsets) and
// encodes runs as overlapping copies (offset smaller than length) - legal choices the reference encoder makes rarely or never.
func snappyCopies(data []byte, kind int) []byte {
	out := LEB128(uint64(len(data)))
	lit := func(b []byte) {
		for len(b) > 0 {
			n := len(b)
			if n > 60 {
				n = 60
			}
			out = append(out, byte(n-1)<<2)
			out = append(out, b[:n]...)
			b = b[n:]
		}
	}
	last := map[[4]byte]int{}
	i, start := 0, 0
	for i+4 <= len(data) {
		var k [4]byte
		copy(k[:], data[i:])
		j, ok := last[k]
		last[k] = i
		if !ok || i-j > 60000 {
			i++
			continue
		}
		n := 4
		for i+n < len(data) && data[j+n] == data[i+n] && n < 64 { // j+n may run into the bytes being produced: an overlapping copy
			n++
		}
		lit(data[start:i])
		off := i - j
		switch {
		case kind%3 == 0 && n <= 11 && off < 2048:
			out = append(out, 1|byte(n-4)<<2|byte(off>>8)<<5, byte(off))
		case kind%3 == 1 || off >= 65536:
			out = append(out, 3|byte(n-1)<<2, byte(off), byte(off>>8), byte(off>>16), byte(off>>24))
		default:
			out = append(out, 2|byte(n-1)<<2, byte(off), byte(off>>8))
		}
		kind++
		i += n
		start = i
	}
	lit(data[start:])
	return out
}

// CompressV is Compress with a variant number selecting among further legal encoder choices.
func CompressV(codec int, data []byte, literal bool, variant int) ([]byte, error) {
	switch {
	case codec == CodecSnappy && !literal && variant%3 != 0:
		return snappyCopies(data, variant), nil
	case codec == CodecGzip && variant%5 != 0:
		var b bytes.Buffer
		level := gzip.BestCompression
		switch variant % 5 {
		case 2:
			level = gzip.NoCompression // stored blocks
		case 3:
			level = gzip.HuffmanOnly
		}
		parts := [][]byte{data}
		if variant%5 == 4 && len(data) > 1 {
			parts = [][]byte{data[:len(data)/2], data[len(data)/2:]} // two members: a legal gzip stream
		}
		for _, part := range parts {
			zw, _ := gzip.NewWriterLevel(&b, level)
			if variant%5 == 1 {
				zw.Name, zw.Comment, zw.Extra = "page.bin", "written by a foreign writer", []byte{1, 2, 3, 4, 5, 6}
				zw.ModTime = time.Unix(1500000000, 0)
			}
			zw.Write(part)
			zw.Close()
		}
		return b.Bytes(), nil
	}
	return Compress(codec, data, literal)
}

// Compress applies a codec the way a foreign writer would.
func Compress(codec int, data []byte, literal bool) ([]byte, error) {
	switch codec {
	case CodecUncompressed:
		return data, nil
	case CodecSnappy:
		if literal {
			return snappyLiteral(data), nil
		}
		return snappy.Encode(nil, data), nil
	case CodecGzip:
		var b bytes.Buffer
		zw, _ := gzip.NewWriterLevel(&b, gzip.BestCompression)
		zw.Write(data)
		zw.Close()
		return b.Bytes(), nil
	case 6: // ZSTD: one frame with a single raw block (valid zstd without a compressor)
		out := []byte{0x28, 0xB5, 0x2F, 0xFD}
		// frame header descriptor: single segment, frame content size field of 4 bytes (FCS flag 2)
		out = append(out, 0xA0)
		var fcs [4]byte
		binary.LittleEndian.PutUint32(fcs[:], uint32(len(data)))
		out = append(out, fcs[:]...)
		if len(data) == 0 {
			return append(out, 0x01, 0x00, 0x00), nil
		}
		for off := 0; off < len(data); {
			n := len(data) - off
			if n > 100000 {
				n = 100000
			}
			last := 0
			if off+n == len(data) {
				last = 1
			}
			h := uint32(last) | uint32(0)<<1 | uint32(n)<<3
			out = append(out, byte(h), byte(h>>8), byte(h>>16))
			out = append(out, data[off:off+n]...)
			off += n
		}
		return out, nil
	case 7, 5: // LZ4_RAW: one literal-only block; LZ4 (hadoop framing) wraps it in two big-endian lengths
		var blk []byte
		n := len(data)
		if n < 15 {
			blk = append(blk, byte(n)<<4)
		} else {
			blk = append(blk, 0xF0)
			r := n - 15
			for r >= 255 {
				blk = append(blk, 255)
				r -= 255
			}
			blk = append(blk, byte(r))
		}
		blk = append(blk, data...)
		if codec == 7 {
			return blk, nil
		}
		var h [8]byte
		binary.BigEndian.PutUint32(h[:4], uint32(len(data)))
		binary.BigEndian.PutUint32(h[4:], uint32(len(blk)))
		return append(h[:], blk...), nil
	case 3, 4: // LZO, BROTLI: no encoder available offline; the body is left as is (the codec id alone must make a reader without a decoder refuse)
		return data, nil
	}
	return nil, fmt.Errorf("pq: cannot compress with codec %d", codec)
}

// msbBitPack is the deprecated BIT_PACKED level encoding: values packed MSB
// first, no length prefix.
func msbBitPack(levels []uint8, w int) []byte {
	out := make([]byte, (len(levels)*w+7)/8)
	bit := 0
	for _, v := range levels {
		for j := w - 1; j >= 0; j-- {
			if (v>>uint(j))&1 == 1 {
				out[bit/8] |= 1 << uint(7-bit%8)
			}
			bit++
		}
	}
	return out
}

func zigzagVar(v int64) []byte { return LEB128(uint64(v<<1) ^ uint64(v>>63)) }

// deltaBinaryPacked encodes integers with DELTA_BINARY_PACKED (block size 128,
// 4 miniblocks of 32 values).
func deltaBinaryPacked(vals []int64) []byte {
	out := LEB128(128)
	out = append(out, LEB128(4)...)
	out = append(out, LEB128(uint64(len(vals)))...)
	if len(vals) == 0 {
		return append(out, zigzagVar(0)...)
	}
	out = append(out, zigzagVar(vals[0])...)
	deltas := make([]int64, 0, len(vals))
	for i := 1; i < len(vals); i++ {
		deltas = append(deltas, vals[i]-vals[i-1])
	}
	for off := 0; off < len(deltas); off += 128 {
		blk := deltas[off:]
		if len(blk) > 128 {
			blk = blk[:128]
		}
		min := blk[0]
		for _, d := range blk {
			if d < min {
				min = d
			}
		}
		out = append(out, zigzagVar(min)...)
		widths := make([]byte, 4)
		var bodies [][]byte
		for m := 0; m < 4; m++ {
			lo := m * 32
			if lo >= len(blk) {
				break
			}
			hi := lo + 32
			mb := make([]uint64, 32)
			var max uint64
			for i := lo; i < hi && i < len(blk); i++ {
				mb[i-lo] = uint64(blk[i] - min)
				if mb[i-lo] > max {
					max = mb[i-lo]
				}
			}
			w := 0
			for max>>uint(w) != 0 {
				w++
			}
			widths[m] = byte(w)
			body := make([]byte, 32*w/8)
			bit := 0
			for _, v := range mb {
				for j := 0; j < w; j++ {
					if (v>>uint(j))&1 == 1 {
						body[bit/8] |= 1 << uint(bit%8)
					}
					bit++
				}
			}
			bodies = append(bodies, body)
		}
		out = append(out, widths...)
		for _, b := range bodies {
			out = append(out, b...)
		}
	}
	return out
}

// longFormFields makes every thrift struct of the file being written use explicit field ids (set per file by WriteFile)
var longFormFields bool

func thriftBytes(s *TSt) []byte {
	e := &TEnc{LongForm: longFormFields}
	e.Struct(s)
	return e.B
}

// valLess orders two values of a column the way the format defines it for statistics.
func valLess(col Column, a, b Val) bool {
	switch col.Type {
	case TypeBoolean:
		return a.Bits&1 < b.Bits&1
	case TypeInt32:
		if col.CType == CTypeUint32 {
			return uint32(a.Bits) < uint32(b.Bits)
		}
		return int32(uint32(a.Bits)) < int32(uint32(b.Bits))
	case TypeInt64:
		if col.CType == CTypeUint64 {
			return a.Bits < b.Bits
		}
		return int64(a.Bits) < int64(b.Bits)
	case TypeFloat:
		return math.Float32frombits(uint32(a.Bits)) < math.Float32frombits(uint32(b.Bits))
	case TypeDouble:
		return math.Float64frombits(a.Bits) < math.Float64frombits(b.Bits)
	}
	return bytes.Compare(a.Bytes, b.Bytes) < 0
}

func isNaNVal(col Column, v Val) bool {
	switch col.Type {
	case TypeFloat:
		f := math.Float32frombits(uint32(v.Bits))
		return f != f
	case TypeDouble:
		f := math.Float64frombits(v.Bits)
		return f != f
	}
	return false
}

// statsStruct builds the page's Statistics.  All its fields are optional in the format, so the kind (p.Pad mod 4) picks
// which ones a foreign writer filled in: 0 null_count only, 1 min_value/max_value only, 2 everything (also the deprecated
// min/max and distinct_count), 3 an empty struct.  Whatever is written is true.
func statsStruct(col Column, p PageSpec, maxDef int) *TSt {
	var nulls int64
	for _, d := range p.Defs {
		if int(d) < maxDef {
			nulls++
		}
	}
	st := NewSt()
	kind := int(p.Pad) % 4
	if kind == 0 || kind == 2 {
		st.SetI64(3, nulls)
	}
	if kind == 1 || kind == 2 {
		var mn, mx *Val
		ok := len(p.Values) > 0
		distinct := map[string]bool{}
		for i := range p.Values {
			v := p.Values[i]
			distinct[valKey(v)] = true
			if isNaNVal(col, v) {
				ok = false // leave min/max out when a NaN is present
				break
			}
			if mn == nil || valLess(col, v, *mn) {
				mn = &p.Values[i]
			}
			if mx == nil || valLess(col, *mx, v) {
				mx = &p.Values[i]
			}
		}
		if ok && mn != nil {
			enc := func(v Val) []byte {
				if col.Type == TypeByteArray {
					return append([]byte{}, v.Bytes...)
				}
				if col.Type == TypeBoolean {
					return []byte{byte(v.Bits & 1)}
				}
				return PlainEncode(col.Type, []Val{v})
			}
			st.F[5] = TVal{T: TBinary, B: enc(*mx)}
			st.F[6] = TVal{T: TBinary, B: enc(*mn)}
			if kind == 2 {
				signedOrder := !(col.CType == CTypeUint32 || col.CType == CTypeUint64 || col.Type == TypeByteArray)
				if signedOrder { // the deprecated fields are only defined for the signed order
					st.F[1] = TVal{T: TBinary, B: enc(*mx)}
					st.F[2] = TVal{T: TBinary, B: enc(*mn)}
				}
				st.SetI64(4, int64(len(distinct)))
			}
		}
	}
	return st
}

// encodePage returns header+body bytes of one page (and of any page that has
// to precede it).
func encodePage(ch ChunkSpec, p PageSpec, dictIdx map[string]int) ([]byte, int, error) {
	col := ch.Col
	n := len(p.Defs)
	if col.MaxDef == 0 {
		n = len(p.Values)
	}
	var levels []byte
	repSegs, defSegs := p.RepSegs, p.DefSegs
	var repBytes, defBytes []byte
	var err error
	if col.MaxRep > 0 {
		if repSegs == nil {
			repSegs = GreedySegs(p.Reps)
		}
		if p.Feature == "levels-bitpacked" || p.Feature == "rep-bitpacked" {
			repBytes = msbBitPack(p.Reps, bitWidth(col.MaxRep))
		} else if repBytes, err = EncodeSegs(p.Reps, bitWidth(col.MaxRep), repSegs, p.Pad); err != nil {
			return nil, 0, fmt.Errorf("rep levels: %v", err)
		}
	}
	if col.MaxDef > 0 {
		if defSegs == nil {
			defSegs = GreedySegs(p.Defs)
		}
		if p.Feature == "levels-bitpacked" || p.Feature == "def-bitpacked" {
			defBytes = msbBitPack(p.Defs, bitWidth(col.MaxDef))
		} else if defBytes, err = EncodeSegs(p.Defs, bitWidth(col.MaxDef), defSegs, p.Pad); err != nil {
			return nil, 0, fmt.Errorf("def levels: %v", err)
		}
	}
	enc := EncPlain
	var values []byte
	switch {
	case dictIdx != nil:
		// PLAIN_DICTIONARY data page: bit width byte + hybrid runs of indices
		idx := make([]uint8, len(p.Values))
		for i, v := range p.Values {
			idx[i] = uint8(dictIdx[valKey(v)])
		}
		w := bitWidth(len(dictIdx) - 1)
		if w == 0 {
			w = 1
		}
		runs, err := EncodeSegs(idx, w, GreedySegs(idx), 0)
		if err != nil {
			return nil, 0, err
		}
		values = append([]byte{byte(w)}, runs[4:]...)
		enc = EncPlainDict
		if ch.Feature == "dict-rle" {
			enc = 8 // RLE_DICTIONARY
		}
	case p.Feature == "enc-bss" && (col.Type == TypeInt32 || col.Type == TypeInt64 || col.Type == TypeFloat || col.Type == TypeDouble):
		// BYTE_STREAM_SPLIT (9): byte j of every value, stream after stream - same length as PLAIN
		plain := PlainEncode(col.Type, p.Values)
		k := 4
		if col.Type == TypeInt64 || col.Type == TypeDouble {
			k = 8
		}
		n := len(p.Values)
		values = make([]byte, len(plain))
		for i := 0; i < n; i++ {
			for j := 0; j < k; j++ {
				values[j*n+i] = plain[i*k+j]
			}
		}
		enc = 9
	case p.Feature == "enc-delta-ba" && col.Type == TypeByteArray:
		// DELTA_BYTE_ARRAY (7): prefix lengths (delta binary packed), then the suffixes as DELTA_LENGTH_BYTE_ARRAY
		pre := make([]int64, len(p.Values))
		suf := make([]int64, len(p.Values))
		var data []byte
		for i, v := range p.Values {
			l := 0
			if i > 0 {
				prev := p.Values[i-1].Bytes
				for l < len(prev) && l < len(v.Bytes) && prev[l] == v.Bytes[l] {
					l++
				}
			}
			pre[i], suf[i] = int64(l), int64(len(v.Bytes)-l)
			data = append(data, v.Bytes[l:]...)
		}
		values = append(append(deltaBinaryPacked(pre), deltaBinaryPacked(suf)...), data...)
		enc = 7
	case len(p.Feature) > 11 && p.Feature[:11] == "enc-future-":
		// an encoding id this reader has never heard of; the body is laid out like PLAIN, the id alone must make it refuse
		values = PlainEncode(col.Type, p.Values)
		fmt.Sscanf(p.Feature[11:], "%d", &enc)
	case p.Feature == "enc-rle-bool" && col.Type == TypeBoolean:
		b := make([]uint8, len(p.Values))
		for i, v := range p.Values {
			b[i] = uint8(v.Bits & 1)
		}
		values, _ = EncodeSegs(b, 1, GreedySegs(b), 0)
		enc = EncRLE
	case p.Feature == "enc-delta" && (col.Type == TypeInt32 || col.Type == TypeInt64):
		iv := make([]int64, len(p.Values))
		for i, v := range p.Values {
			if col.Type == TypeInt32 {
				iv[i] = int64(int32(uint32(v.Bits)))
			} else {
				iv[i] = int64(v.Bits)
			}
		}
		values = deltaBinaryPacked(iv)
		enc = 5
	case p.Feature == "enc-delta-length" && col.Type == TypeByteArray:
		lens := make([]int64, len(p.Values))
		var data []byte
		for i, v := range p.Values {
			lens[i] = int64(len(v.Bytes))
			data = append(data, v.Bytes...)
		}
		values = append(deltaBinaryPacked(lens), data...)
		enc = 6
	default:
		values = PlainEncode(col.Type, p.Values)
		if col.Type == TypeBoolean && len(p.Values)%8 != 0 && p.Pad != 0 {
			// the unused high bits of the last byte of PLAIN booleans are unspecified: fill them with junk
			k := uint(len(p.Values) % 8)
			values[len(values)-1] |= byte(0xff*int(p.Pad&1)) << k
		}
	}
	var out []byte
	if p.Feature == "index-before" {
		ih := NewSt().SetI32(1, PageIndex).SetI32(2, 3).SetI32(3, 3).SetSt(6, NewSt())
		out = append(out, thriftBytes(ih)...)
		out = append(out, 1, 2, 3)
	}
	if p.Feature == "v2" {
		// DATA_PAGE_V2: levels are not compressed and have no length prefix
		var rb, db []byte
		if len(repBytes) > 4 {
			rb = repBytes[4:]
		}
		if len(defBytes) > 4 {
			db = defBytes[4:]
		}
		cv, err := CompressV(ch.Codec, values, ch.Literal, ch.Variant)
		if err != nil {
			return nil, 0, err
		}
		var nulls, rows int64
		for i := range p.Defs {
			if int(p.Defs[i]) < col.MaxDef {
				nulls++
			}
		}
		rows = int64(n)
		if col.MaxRep > 0 {
			rows = 0
			for _, r := range p.Reps {
				if r == 0 {
					rows++
				}
			}
		}
		h2 := NewSt().SetI32(1, int64(n)).SetI32(2, nulls).SetI32(3, rows).SetI32(4, int64(enc)).SetI32(5, int64(len(db))).SetI32(6, int64(len(rb)))
		h2.F[7] = TVal{T: TTrue, Bool: ch.Codec != CodecUncompressed}
		body := append(append(append([]byte{}, rb...), db...), cv...)
		ph := NewSt().SetI32(1, PageData2).SetI32(2, int64(len(rb)+len(db)+len(values))).SetI32(3, int64(len(body))).SetSt(8, h2)
		out = append(out, thriftBytes(ph)...)
		return append(out, body...), len(out) + len(rb) + len(db) + len(values), nil
	}
	levels = append(append(levels, repBytes...), defBytes...)
	payload := append(levels, values...)
	body, err := CompressV(ch.Codec, payload, ch.Literal, ch.Variant)
	if err != nil {
		return nil, 0, err
	}
	dp := NewSt().SetI32(1, int64(n)).SetI32(2, int64(enc)).SetI32(3, EncRLE).SetI32(4, EncRLE)
	switch p.Feature {
	case "levels-bitpacked":
		dp.SetI32(3, EncBitPacked).SetI32(4, EncBitPacked)
	case "def-bitpacked":
		dp.SetI32(3, EncBitPacked)
	case "rep-bitpacked":
		dp.SetI32(4, EncBitPacked)
	}
	if p.AbsentBP && p.Feature == "" {
		if col.MaxDef == 0 {
			dp.SetI32(3, EncBitPacked)
		}
		if col.MaxRep == 0 {
			dp.SetI32(4, EncBitPacked)
		}
	}
	if p.Stats {
		dp.SetSt(5, statsStruct(col, p, col.MaxDef))
	}
	ph := NewSt().SetI32(1, PageData).SetI32(2, int64(len(payload))).SetI32(3, int64(len(body))).SetSt(5, dp)
	if p.Extras {
		// crc: "the 32-bit CRC checksum of the page data as stored" (after compression), signed i32 on the wire - a reader may verify it
		ph.SetI32(4, int64(int32(crc32.ChecksumIEEE(body))))
		ph.F[99] = TVal{T: TBinary, B: []byte("unknown field")}
	}
	// a page of another type whose header ALSO carries a (leftover) data_page_header struct: the type decides
	switch p.Feature {
	case "type-v2-with-dph":
		ph.SetI32(1, PageData2).SetSt(8, NewSt().SetI32(1, int64(n)).SetI32(2, 0).SetI32(3, int64(n)).SetI32(4, EncPlain).SetI32(5, int64(len(defBytes))).SetI32(6, int64(len(repBytes))))
	case "type-index-with-dph":
		ph.SetI32(1, PageIndex).SetSt(6, NewSt())
	case "type-dict-with-dph":
		ph.SetI32(1, PageDict).SetSt(7, NewSt().SetI32(1, int64(n)).SetI32(2, EncPlain))
	}
	out = append(out, thriftBytes(ph)...)
	return append(out, body...), len(out) + len(payload), nil
}

func valKey(v Val) string { return fmt.Sprintf("%x/%x", v.Bits, v.Bytes) }

// WriteFile emits the file.  It returns the bytes and, for every chunk in
// order, the offset of its first page.
func WriteFile(spec FileSpec) ([]byte, error) {
	longFormFields = spec.LongForm
	defer func() { longFormFields = false }()
	out := append([]byte{}, Magic...)
	var rgs []TVal
	var ccs []*TSt
	for _, rg := range spec.RowGroups {
		var chunks []TVal
		var total, ctotal int64
		rgStart := int64(len(out))
		chunks = make([]TVal, len(rg.Chunks))
		for k := range rg.Chunks {
			ci := k
			if spec.ReverseChunks { // physical order of the chunks within the row group; the footer lists them in schema order
				ci = len(rg.Chunks) - 1 - k
			}
			ch := rg.Chunks[ci]
			start := int64(len(out))
			var nvals, usize int64
			var dictIdx map[string]int
			dictOff := int64(-1)
			if ch.Feature == "dict" || ch.Feature == "dict-rle" || ch.Feature == "dict-plain" {
				dictIdx = map[string]int{}
				var dvals []Val
				for _, p := range ch.Pages {
					for _, v := range p.Values {
						if _, ok := dictIdx[valKey(v)]; !ok {
							dictIdx[valKey(v)] = len(dvals)
							dvals = append(dvals, v)
						}
					}
				}
				if len(dvals) == 0 {
					dvals = []Val{{}}
					dictIdx[valKey(Val{})] = 0
				}
				payload := PlainEncode(ch.Col.Type, dvals)
				body, err := CompressV(ch.Codec, payload, ch.Literal, ch.Variant)
				if err != nil {
					return nil, err
				}
				denc := int64(EncPlainDict)
				if ch.Feature == "dict-rle" {
					denc = EncPlain
				}
				dh := NewSt().SetI32(1, int64(len(dvals))).SetI32(2, denc)
				ph := NewSt().SetI32(1, PageDict).SetI32(2, int64(len(payload))).SetI32(3, int64(len(body))).SetSt(7, dh)
				dictOff = int64(len(out))
				hb := thriftBytes(ph)
				out = append(out, hb...)
				out = append(out, body...)
				usize += int64(len(hb) + len(payload))
			}
			dataOff := int64(len(out))
			for _, p := range ch.Pages {
				di := dictIdx
				if ch.Feature == "dict-plain" {
					di = nil // the writer fell back to PLAIN right away: the dictionary page is there but unused
				}
				b, pu, err := encodePage(ch, p, di)
				if err != nil {
					return nil, fmt.Errorf("column %s: %v", ch.Col.Name(), err)
				}
				out = append(out, b...)
				usize += int64(pu)
				if ch.Col.MaxDef > 0 {
					nvals += int64(len(p.Defs))
				} else {
					nvals += int64(len(p.Values))
				}
			}
			csize := int64(len(out)) - start
			codec := ch.Codec
			switch ch.Feature {
			case "codec-lzo":
				codec = 3
			case "codec-brotli":
				codec = 4
			case "codec-lz4":
				codec = 5
			case "codec-zstd":
				codec = 6
			case "codec-lz4raw":
				codec = 7
			}
			encs := []TVal{{T: TI32, I: EncPlain}, {T: TI32, I: EncRLE}}
			if dictIdx != nil {
				encs = append(encs, TVal{T: TI32, I: map[bool]int64{true: 8, false: EncPlainDict}[ch.Feature == "dict-rle"]})
			}
			for _, pg := range ch.Pages {
				if pg.AbsentBP && pg.Feature == "" && (ch.Col.MaxDef == 0 || ch.Col.MaxRep == 0) {
					encs = append(encs, TVal{T: TI32, I: EncBitPacked})
					break
				}
			}
			var path []TVal
			for _, s := range ch.Col.Path {
				path = append(path, TVal{T: TBinary, B: []byte(s)})
			}
			md := NewSt().SetI32(1, int64(ch.Col.Type)).SetList(2, TI32, encs).SetList(3, TBinary, path).SetI32(4, int64(codec)).
				SetI64(5, nvals).SetI64(6, usize).SetI64(7, csize).SetI64(9, dataOff)
			if dictOff >= 0 {
				md.SetI64(11, dictOff)
			}
			if spec.Extras {
				md.SetList(8, TStruct, []TVal{{T: TStruct, S: NewSt().SetStr(1, "k").SetStr(2, "v")}})
				md.SetSt(12, NewSt().SetI64(3, 0))
				// encoding_stats: one entry (data pages, PLAIN, count)
				md.SetList(13, TStruct, []TVal{{T: TStruct, S: NewSt().SetI32(1, PageData).SetI32(2, EncPlain).SetI32(3, int64(len(ch.Pages)))}})
			}
			fo := start
			switch spec.FileOffset {
			case "zero":
				fo = 0
			case "end":
				fo = start + csize
			}
			cc := NewSt().SetI64(2, fo).SetSt(3, md)
			ccs = append(ccs, cc)
			chunks[ci] = TVal{T: TStruct, S: cc}
			total += usize
			ctotal += csize
		}
		// total_byte_size: "total byte size of all the uncompressed column data in this row group"
		r := NewSt().SetList(1, TStruct, chunks).SetI64(2, total).SetI64(3, rg.NumRows)
		if spec.Extras {
			r.SetI64(5, rgStart).SetI64(6, ctotal).SetI32(7, int64(len(rgs)))
		}
		rgs = append(rgs, TVal{T: TStruct, S: r})
	}
	if spec.Extras {
		// a page-index region between the last row group and the footer (what current parquet-mr / arrow writers emit):
		// one (fake but well-formed thrift) ColumnIndex and OffsetIndex per chunk, referenced from the ColumnChunk
		for _, cc := range ccs {
			ci := thriftBytes(NewSt().SetList(1, TTrue, nil).SetI32(4, 0))
			cc.SetI64(6, int64(len(out))).SetI32(7, int64(len(ci)))
			out = append(out, ci...)
		}
		for _, cc := range ccs {
			oi := thriftBytes(NewSt().SetList(1, TStruct, nil))
			cc.SetI64(4, int64(len(out))).SetI32(5, int64(len(oi)))
			out = append(out, oi...)
		}
	}
	var schema []TVal
	var rows int64
	for _, rg := range spec.RowGroups {
		rows += rg.NumRows
	}
	for i, e := range spec.Schema {
		s := NewSt().SetStr(4, e.Name)
		if e.Type >= 0 {
			s.SetI32(1, int64(e.Type))
		}
		if e.Rep >= 0 {
			s.SetI32(3, int64(e.Rep))
		}
		if e.NumChildren >= 0 && e.Type < 0 {
			s.SetI32(5, int64(e.NumChildren))
		}
		if e.CType >= 0 {
			s.SetI32(6, int64(e.CType))
		}
		if spec.Extras {
			if i == 0 && e.Rep < 0 {
				s.SetI32(3, 0) // some writers mark the root REQUIRED
			}
			if e.Type >= 0 {
				s.SetI32(9, int64(i)) // field_id
			}
			if e.Type == TypeByteArray && e.CType == 0 {
				s.SetSt(10, NewSt().SetSt(1, NewSt())) // LogicalType.STRING
			}
		}
		schema = append(schema, TVal{T: TStruct, S: s})
	}
	fmd := NewSt().SetI32(1, 1).SetList(2, TStruct, schema).SetI64(3, rows).SetList(4, TStruct, rgs)
	if spec.Extras {
		fmd.SetList(5, TStruct, []TVal{{T: TStruct, S: NewSt().SetStr(1, "writer").SetStr(2, "foreign")}})
		fmd.SetStr(6, "verif foreign writer version 1.0")
		fmd.F[77] = TVal{T: TI64, I: 42} // a field from the future
	}
	fb := thriftBytes(fmd)
	out = append(out, fb...)
	var l [4]byte
	binary.LittleEndian.PutUint32(l[:], uint32(len(fb)))
	out = append(out, l[:]...)
	return append(out, Magic...), nil
}
