package pq

import (
	"bytes"
	"compress/gzip"
	"encoding/binary"
	"fmt"
	"io"
	"strings"

	"github.com/golang/snappy"
)

// Parquet enums (parquet.thrift).
const (
	TypeBoolean   = 0
	TypeInt32     = 1
	TypeInt64     = 2
	TypeInt96     = 3
	TypeFloat     = 4
	TypeDouble    = 5
	TypeByteArray = 6

	RepRequired = 0
	RepOptional = 1
	RepRepeated = 2

	CodecUncompressed = 0
	CodecSnappy       = 1
	CodecGzip         = 2

	EncPlain     = 0
	EncPlainDict = 2
	EncRLE       = 3
	EncBitPacked = 4

	PageData  = 0
	PageIndex = 1
	PageDict  = 2
	PageData2 = 3

	CTypeUint32 = 13 // ConvertedType UINT_32
	CTypeUint64 = 14 // ConvertedType UINT_64
)

var TypeNames = map[int]string{0: "BOOLEAN", 1: "INT32", 2: "INT64", 3: "INT96", 4: "FLOAT", 5: "DOUBLE", 6: "BYTE_ARRAY", 7: "FIXED_LEN_BYTE_ARRAY"}

// SchemaElem is one element of the flattened footer schema.  Absent optional
// thrift fields are -1.
type SchemaElem struct {
	Name        string `json:"name"`
	Type        int    `json:"type"`
	CType       int    `json:"ctype"`
	Rep         int    `json:"rep"`
	NumChildren int    `json:"nchildren"`
}

// Column is a leaf of the schema tree with its path and level bounds.
type Column struct {
	Path   []string `json:"path"`
	Type   int      `json:"type"`
	CType  int      `json:"ctype"`
	Reps   []int    `json:"reps"` // repetition type of every path element
	MaxDef int      `json:"maxdef"`
	MaxRep int      `json:"maxrep"`
}

func (c Column) Name() string { return strings.Join(c.Path, ".") }

// Columns walks the flattened schema as a tree (depth first, by num_children)
// and returns its leaves.  It reports an error if the list is not a
// well-formed tree: a root with children, every group's children present, no
// element left over, leaves with a type and without children, groups without
// a type.
func Columns(schema []SchemaElem) ([]Column, error) {
	if len(schema) == 0 {
		return nil, fmt.Errorf("empty schema")
	}
	root := schema[0]
	if root.NumChildren < 0 {
		return nil, fmt.Errorf("root has no num_children")
	}
	if root.Type >= 0 {
		return nil, fmt.Errorf("root has a physical type")
	}
	var cols []Column
	pos := 1
	var walk func(n int, path []string, reps []int) error
	walk = func(n int, path []string, reps []int) error {
		for i := 0; i < n; i++ {
			if pos >= len(schema) {
				return fmt.Errorf("schema ends before all children of %q are listed (num_children too large)", strings.Join(path, "."))
			}
			e := schema[pos]
			pos++
			if e.Rep < 0 || e.Rep > 2 {
				return fmt.Errorf("element %q has no valid repetition type", e.Name)
			}
			p := append(append([]string{}, path...), e.Name)
			r := append(append([]int{}, reps...), e.Rep)
			if e.Type >= 0 {
				if e.NumChildren > 0 {
					return fmt.Errorf("leaf %q has children", e.Name)
				}
				c := Column{Path: p, Type: e.Type, CType: e.CType, Reps: r}
				for _, x := range r {
					if x != RepRequired {
						c.MaxDef++
					}
					if x == RepRepeated {
						c.MaxRep++
					}
				}
				cols = append(cols, c)
			} else {
				if e.NumChildren < 1 {
					return fmt.Errorf("group %q has no children", e.Name)
				}
				if err := walk(e.NumChildren, p, r); err != nil {
					return err
				}
			}
		}
		return nil
	}
	if err := walk(root.NumChildren, nil, nil); err != nil {
		return nil, err
	}
	if pos != len(schema) {
		return nil, fmt.Errorf("%d schema elements are not reachable from the root (num_children too small)", len(schema)-pos)
	}
	return cols, nil
}

// Stats are the page statistics (absent fields: nil / HasNull false).
type Stats struct {
	HasNull     bool
	NullCount   int64
	HasDistinct bool
	Min, Max    []byte // min_value / max_value (field 6 / 5)
	HasMin      bool
	HasMax      bool
	OldMin      []byte // deprecated min / max (field 2 / 1)
	OldMax      []byte
	HasOldMin   bool
	HasOldMax   bool
}

// PageHdr is a decoded PageHeader.
type PageHdr struct {
	Type      int
	Uncomp    int
	Comp      int
	HasData   bool // data_page_header present
	NumValues int
	Enc       int
	DefEnc    int
	RepEnc    int
	Stats     *Stats
	HasDict   bool
	HasIndex  bool
	HasV2     bool
	HdrLen    int
	Raw       *TSt
}

func decodeStats(s *TSt) *Stats {
	if s == nil {
		return nil
	}
	st := &Stats{}
	if v, ok := s.Int(3); ok {
		st.HasNull, st.NullCount = true, v
	}
	_, st.HasDistinct = s.Int(4)
	st.OldMax, st.HasOldMax = s.Bin(1)
	st.OldMin, st.HasOldMin = s.Bin(2)
	st.Max, st.HasMax = s.Bin(5)
	st.Min, st.HasMin = s.Bin(6)
	return st
}

// ReadPageHdr decodes a page header at b[off:].
func ReadPageHdr(b []byte, off int) (*PageHdr, error) {
	if off < 0 || off > len(b) {
		return nil, fmt.Errorf("offset %d outside the file", off)
	}
	d := &TDec{B: b, Pos: off}
	s, err := d.Struct()
	if err != nil {
		return nil, err
	}
	h := &PageHdr{Raw: s, HdrLen: d.Pos - off, Type: -1, Uncomp: -1, Comp: -1, Enc: -1, DefEnc: -1, RepEnc: -1}
	if v, ok := s.Int(1); ok {
		h.Type = int(v)
	}
	if v, ok := s.Int(2); ok {
		h.Uncomp = int(v)
	}
	if v, ok := s.Int(3); ok {
		h.Comp = int(v)
	}
	if dp := s.Sub(5); dp != nil {
		h.HasData = true
		h.NumValues = int(dp.IntD(1, -1))
		h.Enc = int(dp.IntD(2, -1))
		h.DefEnc = int(dp.IntD(3, -1))
		h.RepEnc = int(dp.IntD(4, -1))
		h.Stats = decodeStats(dp.Sub(5))
	}
	h.HasIndex = s.Has(6)
	h.HasDict = s.Has(7)
	h.HasV2 = s.Has(8)
	return h, nil
}

// Chunk is a ColumnChunk + ColumnMetaData.
type Chunk struct {
	FileOffset     int64    `json:"file_offset"`
	HasMeta        bool     `json:"has_meta"`
	Type           int      `json:"type"`
	Encodings      []int    `json:"encodings"`
	Path           []string `json:"path"`
	Codec          int      `json:"codec"`
	NumValues      int64    `json:"num_values"`
	TotalUncomp    int64    `json:"total_uncomp"`
	TotalComp      int64    `json:"total_comp"`
	DataPageOffset int64    `json:"data_page_offset"`
	HasDictOffset  bool     `json:"has_dict_offset"`
	DictPageOffset int64    `json:"dict_page_offset"`
}

type RowGroup struct {
	NumRows       int64   `json:"num_rows"`
	TotalByteSize int64   `json:"total_byte_size"`
	Columns       []Chunk `json:"columns"`
}

// Footer is the decoded FileMetaData plus framing facts.
type Footer struct {
	Version   int64
	Schema    []SchemaElem
	NumRows   int64
	RowGroups []RowGroup
	CreatedBy string
	FooterOff int // offset of the thrift footer
	FooterLen int // value of the 4-byte length field
	Consumed  int // bytes the thrift decoder consumed
	Raw       *TSt
}

var Magic = []byte("PAR1")

// ParseFooter checks the framing (head magic, tail magic, footer length) and
// decodes the footer.
func ParseFooter(file []byte) (*Footer, error) {
	if len(file) < 12 {
		return nil, fmt.Errorf("file of %d bytes is too short", len(file))
	}
	if !bytes.Equal(file[:4], Magic) {
		return nil, fmt.Errorf("head magic missing")
	}
	if !bytes.Equal(file[len(file)-4:], Magic) {
		return nil, fmt.Errorf("tail magic missing")
	}
	n := int(binary.LittleEndian.Uint32(file[len(file)-8:]))
	if n <= 0 || n > len(file)-12 {
		return nil, fmt.Errorf("footer length %d does not fit a file of %d bytes", n, len(file))
	}
	off := len(file) - 8 - n
	d := &TDec{B: file[:len(file)-8], Pos: off}
	s, err := d.Struct()
	if err != nil {
		return nil, fmt.Errorf("footer does not decode: %v", err)
	}
	f := &Footer{Raw: s, FooterOff: off, FooterLen: n, Consumed: d.Pos - off}
	if f.Consumed != n {
		return nil, fmt.Errorf("footer length field says %d but the thrift struct occupies %d bytes", n, f.Consumed)
	}
	f.Version = s.IntD(1, -1)
	f.NumRows = s.IntD(3, -1)
	f.CreatedBy = s.Str(6)
	for _, e := range s.List(2) {
		if e.S == nil {
			return nil, fmt.Errorf("schema element is not a struct")
		}
		se := SchemaElem{Name: e.S.Str(4), Type: int(e.S.IntD(1, -1)), CType: int(e.S.IntD(6, -1)), Rep: int(e.S.IntD(3, -1)), NumChildren: int(e.S.IntD(5, -1))}
		f.Schema = append(f.Schema, se)
	}
	for _, r := range s.List(4) {
		if r.S == nil {
			return nil, fmt.Errorf("row group is not a struct")
		}
		rg := RowGroup{NumRows: r.S.IntD(3, -1), TotalByteSize: r.S.IntD(2, -1)}
		for _, c := range r.S.List(1) {
			if c.S == nil {
				return nil, fmt.Errorf("column chunk is not a struct")
			}
			ch := Chunk{FileOffset: c.S.IntD(2, -1), Type: -1, Codec: -1, NumValues: -1, TotalUncomp: -1, TotalComp: -1, DataPageOffset: -1}
			if m := c.S.Sub(3); m != nil {
				ch.HasMeta = true
				ch.Type = int(m.IntD(1, -1))
				for _, e := range m.List(2) {
					ch.Encodings = append(ch.Encodings, int(e.I))
				}
				for _, p := range m.List(3) {
					ch.Path = append(ch.Path, string(p.B))
				}
				ch.Codec = int(m.IntD(4, -1))
				ch.NumValues = m.IntD(5, -1)
				ch.TotalUncomp = m.IntD(6, -1)
				ch.TotalComp = m.IntD(7, -1)
				ch.DataPageOffset = m.IntD(9, -1)
				ch.DictPageOffset, ch.HasDictOffset = m.Int(11)
			}
			rg.Columns = append(rg.Columns, ch)
		}
		f.RowGroups = append(f.RowGroups, rg)
	}
	return f, nil
}

// Decompress undoes a page codec.
func Decompress(codec int, body []byte, uncomp int) ([]byte, error) {
	switch codec {
	case CodecUncompressed:
		return body, nil
	case CodecSnappy:
		return snappy.Decode(nil, body)
	case CodecGzip:
		zr, err := gzip.NewReader(bytes.NewReader(body))
		if err != nil {
			return nil, err
		}
		// RFC 1952: a gzip stream is a series of members; the page is all of them (trailing bytes that are not a member are an error)
		out, err := io.ReadAll(zr)
		if err != nil {
			return nil, err
		}
		return out, zr.Close()
	}
	return nil, fmt.Errorf("codec %d not supported by the reference parser", codec)
}

// Val is a PLAIN value: the raw little-endian bits of a numeric / bool value,
// or the bytes of a BYTE_ARRAY.
type Val struct {
	Bits  uint64
	Bytes []byte
}

func bitWidth(max int) int {
	w := 0
	for max > 0 {
		w++
		max >>= 1
	}
	return w
}

// Page is one fully decoded v1 data page.
type Page struct {
	Off      int      // offset of the page header in the file
	Hdr      *PageHdr // header
	BodyOff  int
	Data     []byte // decompressed payload
	RepLen   int    // bytes of the repetition level section (0 when MaxRep = 0)
	DefLen   int    // bytes of the definition level section (0 when MaxDef = 0)
	ValLen   int    // bytes of the value section as consumed by the PLAIN decoder
	Reps     []uint8
	Defs     []uint8
	RepRuns  []Run
	DefRuns  []Run
	RepPad   []uint8 // decoded entries beyond num_values
	DefPad   []uint8
	Values   []Val
	NonNull  int
	Records  int // entries with rep = 0 (num_values when MaxRep = 0)
	Problems []string
}

// End is the offset just after the page body.
func (p *Page) End() int { return p.BodyOff + p.Hdr.Comp }

func (p *Page) problem(f string, a ...interface{}) {
	p.Problems = append(p.Problems, fmt.Sprintf(f, a...))
}

// DecodePlain decodes n PLAIN values of the given physical type and returns
// them with the number of bytes consumed.
func DecodePlain(typ int, data []byte, n int) ([]Val, int, error) {
	out := make([]Val, 0, n)
	pos := 0
	switch typ {
	case TypeBoolean:
		nb := (n + 7) / 8
		if nb > len(data) {
			return nil, 0, fmt.Errorf("%d booleans need %d bytes, %d present", n, nb, len(data))
		}
		for i := 0; i < n; i++ {
			out = append(out, Val{Bits: uint64(data[i/8]>>uint(i%8)) & 1})
		}
		return out, nb, nil
	case TypeInt32, TypeFloat:
		if 4*n > len(data) {
			return nil, 0, fmt.Errorf("%d 4-byte values need %d bytes, %d present", n, 4*n, len(data))
		}
		for i := 0; i < n; i++ {
			out = append(out, Val{Bits: uint64(binary.LittleEndian.Uint32(data[4*i:]))})
		}
		return out, 4 * n, nil
	case TypeInt64, TypeDouble:
		if 8*n > len(data) {
			return nil, 0, fmt.Errorf("%d 8-byte values need %d bytes, %d present", n, 8*n, len(data))
		}
		for i := 0; i < n; i++ {
			out = append(out, Val{Bits: binary.LittleEndian.Uint64(data[8*i:])})
		}
		return out, 8 * n, nil
	case TypeByteArray:
		for i := 0; i < n; i++ {
			if pos+4 > len(data) {
				return nil, 0, fmt.Errorf("byte array %d: length prefix truncated", i)
			}
			l := int(binary.LittleEndian.Uint32(data[pos:]))
			pos += 4
			if l < 0 || pos+l > len(data) {
				return nil, 0, fmt.Errorf("byte array %d: %d bytes announced, %d present", i, l, len(data)-pos)
			}
			out = append(out, Val{Bytes: data[pos : pos+l : pos+l]})
			pos += l
		}
		return out, pos, nil
	}
	return nil, 0, fmt.Errorf("physical type %d not supported", typ)
}

// DecodePage decodes the v1 data page whose header starts at off, as a page of
// column col compressed with codec.  Structural disagreements between header
// and content are collected in Problems; err is returned only when the page
// cannot be delimited at all.
func DecodePage(file []byte, off int, col Column, codec int) (*Page, error) {
	h, err := ReadPageHdr(file, off)
	if err != nil {
		return nil, fmt.Errorf("page header at %d: %v", off, err)
	}
	p := &Page{Off: off, Hdr: h, BodyOff: off + h.HdrLen}
	if h.Comp < 0 || p.BodyOff+h.Comp > len(file) {
		return nil, fmt.Errorf("page at %d: compressed_page_size %d runs past the end of the file", off, h.Comp)
	}
	if h.Type != PageData || !h.HasData {
		p.problem("page type %d is not a v1 data page", h.Type)
		return p, nil
	}
	if h.Enc != EncPlain {
		p.problem("value encoding %d is not PLAIN", h.Enc)
	}
	data, err := Decompress(codec, file[p.BodyOff:p.BodyOff+h.Comp], h.Uncomp)
	if err != nil {
		p.problem("body does not decompress with codec %d: %v", codec, err)
		return p, nil
	}
	p.Data = data
	if len(data) != h.Uncomp {
		p.problem("uncompressed_page_size %d but the body decompresses to %d bytes", h.Uncomp, len(data))
	}
	pos := 0
	n := h.NumValues
	if n < 0 {
		p.problem("num_values missing")
		return p, nil
	}
	if col.MaxRep > 0 {
		if h.RepEnc != EncRLE {
			p.problem("repetition level encoding %d is not RLE", h.RepEnc)
		}
		vals, runs, c, err := DecodeStream(data[pos:], bitWidth(col.MaxRep))
		if err != nil {
			p.problem("repetition levels: %v", err)
			return p, nil
		}
		if len(vals) < n {
			p.problem("repetition levels hold %d entries, num_values is %d", len(vals), n)
			return p, nil
		}
		p.Reps, p.RepPad, p.RepRuns, p.RepLen = vals[:n], vals[n:], runs, c
		pos += c
	}
	if col.MaxDef > 0 {
		if h.DefEnc != EncRLE {
			p.problem("definition level encoding %d is not RLE", h.DefEnc)
		}
		vals, runs, c, err := DecodeStream(data[pos:], bitWidth(col.MaxDef))
		if err != nil {
			p.problem("definition levels: %v", err)
			return p, nil
		}
		if len(vals) < n {
			p.problem("definition levels hold %d entries, num_values is %d", len(vals), n)
			return p, nil
		}
		p.Defs, p.DefPad, p.DefRuns, p.DefLen = vals[:n], vals[n:], runs, c
		pos += c
	}
	p.NonNull = n
	if col.MaxDef > 0 {
		p.NonNull = 0
		for _, d := range p.Defs {
			if int(d) == col.MaxDef {
				p.NonNull++
			}
			if int(d) > col.MaxDef {
				p.problem("definition level %d exceeds the maximum %d", d, col.MaxDef)
			}
		}
	}
	p.Records = n
	if col.MaxRep > 0 {
		p.Records = 0
		for _, r := range p.Reps {
			if r == 0 {
				p.Records++
			}
			if int(r) > col.MaxRep {
				p.problem("repetition level %d exceeds the maximum %d", r, col.MaxRep)
			}
		}
	}
	vals, c, err := DecodePlain(col.Type, data[pos:], p.NonNull)
	if err != nil {
		p.problem("values: %v", err)
		return p, nil
	}
	p.Values, p.ValLen = vals, c
	if pos+c != len(data) {
		p.problem("level and value sections occupy %d bytes, the payload has %d", pos+c, len(data))
	}
	return p, nil
}

// RawPage is a page delimited by its header only (no column knowledge).
type RawPage struct {
	Off int
	Hdr *PageHdr
}

func (r RawPage) End() int { return r.Off + r.Hdr.HdrLen + r.Hdr.Comp }

// WalkRaw walks page headers sequentially over file[from:to].  It stops at the
// first position that is not a page header and returns what it has plus the
// error.
func WalkRaw(file []byte, from, to int) ([]RawPage, error) {
	var out []RawPage
	pos := from
	for pos < to {
		h, err := ReadPageHdr(file[:to], pos)
		if err != nil {
			return out, fmt.Errorf("at %d: %v", pos, err)
		}
		if h.Comp < 0 || h.Type < 0 || pos+h.HdrLen+h.Comp > to {
			return out, fmt.Errorf("at %d: not a page header (type %d, compressed size %d)", pos, h.Type, h.Comp)
		}
		out = append(out, RawPage{Off: pos, Hdr: h})
		pos += h.HdrLen + h.Comp
	}
	return out, nil
}
