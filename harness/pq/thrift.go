// Package pq is the harness's own, library-independent Parquet codec: a
// thrift-compact reader/writer, the RLE/bit-packed hybrid codec, PLAIN values,
// page and footer walks (projection function of the specification) and a
// foreign writer that can emit any physical encoding the specification's
// AnyWriter relation describes.  It shares no code with parsyl/parquet or with
// apache/thrift.
package pq

import (
	"encoding/binary"
	"errors"
	"fmt"
	"math"
	"sort"
)

// Thrift compact wire types.
const (
	TStop   = 0
	TTrue   = 1
	TFalse  = 2
	TByte   = 3
	TI16    = 4
	TI32    = 5
	TI64    = 6
	TDouble = 7
	TBinary = 8
	TList   = 9
	TSet    = 10
	TMap    = 11
	TStruct = 12
)

// TVal is a generic thrift value.
type TVal struct {
	T    int // wire type (TTrue/TFalse both normalise to TTrue with Bool set)
	I    int64
	F    float64
	B    []byte
	Bool bool
	ET   int // element type for lists
	L    []TVal
	S    *TSt
}

// TSt is a generic thrift struct: field id -> value, plus the order the
// fields appeared in (the writer emits in ascending id order).
type TSt struct {
	F map[int16]TVal
}

func NewSt() *TSt { return &TSt{F: map[int16]TVal{}} }

func (s *TSt) Has(id int16) bool { _, ok := s.F[id]; return ok }
func (s *TSt) Int(id int16) (int64, bool) {
	v, ok := s.F[id]
	if !ok {
		return 0, false
	}
	return v.I, true
}
func (s *TSt) IntD(id int16, d int64) int64 {
	if v, ok := s.F[id]; ok {
		return v.I
	}
	return d
}
func (s *TSt) Bin(id int16) ([]byte, bool) {
	v, ok := s.F[id]
	if !ok {
		return nil, false
	}
	return v.B, true
}
func (s *TSt) Str(id int16) string { b, _ := s.Bin(id); return string(b) }
func (s *TSt) List(id int16) []TVal {
	v, ok := s.F[id]
	if !ok {
		return nil
	}
	return v.L
}
func (s *TSt) Sub(id int16) *TSt {
	v, ok := s.F[id]
	if !ok {
		return nil
	}
	return v.S
}

func (s *TSt) SetI32(id int16, v int64) *TSt  { s.F[id] = TVal{T: TI32, I: v}; return s }
func (s *TSt) SetI64(id int16, v int64) *TSt  { s.F[id] = TVal{T: TI64, I: v}; return s }
func (s *TSt) SetBin(id int16, b []byte) *TSt { s.F[id] = TVal{T: TBinary, B: b}; return s }
func (s *TSt) SetStr(id int16, v string) *TSt { return s.SetBin(id, []byte(v)) }
func (s *TSt) SetSt(id int16, v *TSt) *TSt    { s.F[id] = TVal{T: TStruct, S: v}; return s }
func (s *TSt) SetList(id int16, et int, l []TVal) *TSt {
	s.F[id] = TVal{T: TList, ET: et, L: l}
	return s
}

var ErrShort = errors.New("pq: unexpected end of thrift data")

// TDec decodes thrift compact data from a byte slice.
type TDec struct {
	B   []byte
	Pos int
	// Depth guard against malicious nesting.
	depth int
}

func (d *TDec) byte() (byte, error) {
	if d.Pos >= len(d.B) {
		return 0, ErrShort
	}
	b := d.B[d.Pos]
	d.Pos++
	return b, nil
}

func (d *TDec) uvarint() (uint64, error) {
	var out uint64
	var shift uint
	for i := 0; i < 10; i++ {
		b, err := d.byte()
		if err != nil {
			return 0, err
		}
		out |= uint64(b&0x7f) << shift
		if b&0x80 == 0 {
			return out, nil
		}
		shift += 7
	}
	return 0, errors.New("pq: varint too long")
}

func (d *TDec) zigzag() (int64, error) {
	u, err := d.uvarint()
	if err != nil {
		return 0, err
	}
	return int64(u>>1) ^ -int64(u&1), nil
}

func (d *TDec) value(t int) (TVal, error) {
	switch t {
	case TTrue:
		return TVal{T: TTrue, Bool: true}, nil
	case TFalse:
		return TVal{T: TTrue, Bool: false}, nil
	case TByte:
		b, err := d.byte()
		return TVal{T: TByte, I: int64(int8(b))}, err
	case TI16, TI32, TI64:
		v, err := d.zigzag()
		return TVal{T: t, I: v}, err
	case TDouble:
		if d.Pos+8 > len(d.B) {
			return TVal{}, ErrShort
		}
		u := binary.LittleEndian.Uint64(d.B[d.Pos:])
		d.Pos += 8
		return TVal{T: TDouble, F: math.Float64frombits(u)}, nil
	case TBinary:
		n, err := d.uvarint()
		if err != nil {
			return TVal{}, err
		}
		if n > uint64(len(d.B)-d.Pos) {
			return TVal{}, ErrShort
		}
		b := d.B[d.Pos : d.Pos+int(n)]
		d.Pos += int(n)
		return TVal{T: TBinary, B: b}, nil
	case TList, TSet:
		h, err := d.byte()
		if err != nil {
			return TVal{}, err
		}
		et := int(h & 0x0f)
		n := uint64(h >> 4)
		if n == 15 {
			n, err = d.uvarint()
			if err != nil {
				return TVal{}, err
			}
		}
		if n > uint64(len(d.B)-d.Pos)+1 && et != TTrue && et != TFalse {
			// every element takes at least one byte (structs: the stop byte)
			return TVal{}, ErrShort
		}
		out := TVal{T: TList, ET: et}
		for i := uint64(0); i < n; i++ {
			var v TVal
			if et == TTrue || et == TFalse {
				b, err := d.byte()
				if err != nil {
					return TVal{}, err
				}
				v = TVal{T: TTrue, Bool: b == 1}
			} else {
				v, err = d.value(et)
				if err != nil {
					return TVal{}, err
				}
			}
			out.L = append(out.L, v)
		}
		return out, nil
	case TMap:
		n, err := d.uvarint()
		if err != nil {
			return TVal{}, err
		}
		if n == 0 {
			return TVal{T: TMap}, nil
		}
		kv, err := d.byte()
		if err != nil {
			return TVal{}, err
		}
		kt, vt := int(kv>>4), int(kv&0x0f)
		out := TVal{T: TMap}
		for i := uint64(0); i < n; i++ {
			k, err := d.value(kt)
			if err != nil {
				return TVal{}, err
			}
			v, err := d.value(vt)
			if err != nil {
				return TVal{}, err
			}
			out.L = append(out.L, k, v)
		}
		return out, nil
	case TStruct:
		s, err := d.Struct()
		return TVal{T: TStruct, S: s}, err
	}
	return TVal{}, fmt.Errorf("pq: unknown thrift type %d", t)
}

// Struct decodes one struct (up to and including its stop byte).
func (d *TDec) Struct() (*TSt, error) {
	d.depth++
	defer func() { d.depth-- }()
	if d.depth > 32 {
		return nil, errors.New("pq: thrift nesting too deep")
	}
	s := NewSt()
	var last int16
	for {
		h, err := d.byte()
		if err != nil {
			return nil, err
		}
		if h == TStop {
			return s, nil
		}
		t := int(h & 0x0f)
		delta := int16(h >> 4)
		var id int16
		if delta == 0 {
			v, err := d.zigzag()
			if err != nil {
				return nil, err
			}
			id = int16(v)
		} else {
			id = last + delta
		}
		last = id
		v, err := d.value(t)
		if err != nil {
			return nil, err
		}
		s.F[id] = v
	}
}

// TEnc encodes thrift compact data.
type TEnc struct {
	B []byte
	// LongForm: every field header is written as type byte + zigzag field id, never as a delta (legal, what some writers do)
	LongForm bool
}

func (e *TEnc) uvarint(u uint64) {
	for u >= 0x80 {
		e.B = append(e.B, byte(u)|0x80)
		u >>= 7
	}
	e.B = append(e.B, byte(u))
}
func (e *TEnc) zigzag(v int64) { e.uvarint(uint64(v<<1) ^ uint64(v>>63)) }

func (e *TEnc) value(v TVal) {
	switch v.T {
	case TByte:
		e.B = append(e.B, byte(v.I))
	case TI16, TI32, TI64:
		e.zigzag(v.I)
	case TDouble:
		var b [8]byte
		binary.LittleEndian.PutUint64(b[:], math.Float64bits(v.F))
		e.B = append(e.B, b[:]...)
	case TBinary:
		e.uvarint(uint64(len(v.B)))
		e.B = append(e.B, v.B...)
	case TList, TSet:
		n := len(v.L)
		if n < 15 {
			e.B = append(e.B, byte(n<<4)|byte(v.ET))
		} else {
			e.B = append(e.B, 0xf0|byte(v.ET))
			e.uvarint(uint64(n))
		}
		for _, x := range v.L {
			if v.ET == TTrue || v.ET == TFalse {
				if x.Bool {
					e.B = append(e.B, 1)
				} else {
					e.B = append(e.B, 2)
				}
			} else {
				e.value(x)
			}
		}
	case TStruct:
		e.Struct(v.S)
	}
}

// Struct encodes s with its fields in ascending id order.
func (e *TEnc) Struct(s *TSt) {
	ids := make([]int, 0, len(s.F))
	for id := range s.F {
		ids = append(ids, int(id))
	}
	sort.Ints(ids)
	last := 0
	for _, id := range ids {
		v := s.F[int16(id)]
		t := v.T
		if t == TTrue && !v.Bool {
			t = TFalse
		}
		delta := id - last
		if delta > 0 && delta <= 15 && !e.LongForm {
			e.B = append(e.B, byte(delta<<4)|byte(t))
		} else {
			e.B = append(e.B, byte(t))
			e.zigzag(int64(id))
		}
		last = id
		if v.T != TTrue {
			e.value(v)
		}
	}
	e.B = append(e.B, TStop)
}
