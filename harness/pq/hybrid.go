package pq

import (
	"errors"
	"fmt"
)

// ---- bit packing, straight from the text of the Parquet specification:
// values are packed LSB first into a little-endian bit string.
// (Mirror of spec/Bitpack.tla: SpecPack = Pack, SpecUnpack = Unpack.)

// SpecPack packs eight w-bit values into w bytes.
func SpecPack(vals []uint8, w int) []byte {
	out := make([]byte, w)
	bit := 0
	for i := 0; i < 8; i++ {
		for j := 0; j < w; j++ {
			if (vals[i]>>uint(j))&1 == 1 {
				out[bit/8] |= 1 << uint(bit%8)
			}
			bit++
		}
	}
	return out
}

// SpecUnpack is defined independently of SpecPack by bit extraction.
func SpecUnpack(b []byte, w int) []uint8 {
	out := make([]uint8, 8)
	for i := 0; i < 8; i++ {
		var v uint8
		for j := 0; j < w; j++ {
			n := w*i + j
			if (b[n/8]>>uint(n%8))&1 == 1 {
				v |= 1 << uint(j)
			}
		}
		out[i] = v
	}
	return out
}

// Run is one run of a hybrid stream.
type Run struct {
	Kind   string  `json:"kind"` // "rle" | "bp"
	Count  int     `json:"count"`
	Value  uint8   `json:"value"`
	Groups int     `json:"groups"`
	Vals   []uint8 `json:"vals,omitempty"` // bit-packed: 8*Groups values (incl. padding)
	HdrLen int     `json:"hdrlen"`
}

var ErrMalformed = errors.New("pq: malformed hybrid stream")

// DecodeRuns is the reference decoder of the run bytes (no length prefix).
// (Mirror of spec/Hybrid.tla DecodeRuns.)  It is strict: every header must be
// complete, RLE count >= 1 with an in-range value, bit-packed groups >= 1 with
// exactly groups*w payload bytes, nothing left over.
func DecodeRuns(bs []byte, w int) ([]Run, error) {
	var runs []Run
	pos := 0
	for pos < len(bs) {
		start := pos
		var h uint64
		var shift uint
		for {
			if pos >= len(bs) {
				return nil, fmt.Errorf("%w: truncated run header", ErrMalformed)
			}
			b := bs[pos]
			pos++
			if shift == 28 && b&0x7f >= 8 {
				return nil, fmt.Errorf("%w: run header beyond 31 bits", ErrMalformed)
			}
			h |= uint64(b&0x7f) << shift
			if b&0x80 == 0 {
				break
			}
			shift += 7
			if shift > 28 {
				return nil, fmt.Errorf("%w: run header too long", ErrMalformed)
			}
		}
		if h&1 == 0 {
			cnt := int(h >> 1)
			nb := (w + 7) / 8
			if pos+nb > len(bs) {
				return nil, fmt.Errorf("%w: truncated RLE value", ErrMalformed)
			}
			var v uint8
			if nb == 1 {
				v = bs[pos]
				if int(v) >= 1<<uint(w) {
					return nil, fmt.Errorf("%w: RLE value %d out of range for width %d", ErrMalformed, v, w)
				}
			}
			pos += nb
			runs = append(runs, Run{Kind: "rle", Count: cnt, Value: v, HdrLen: pos - start - nb})
		} else {
			g := int(h >> 1)
			if g < 1 {
				return nil, fmt.Errorf("%w: bit-packed run of 0 groups", ErrMalformed)
			}
			if pos+g*w > len(bs) {
				return nil, fmt.Errorf("%w: truncated bit-packed payload", ErrMalformed)
			}
			r := Run{Kind: "bp", Groups: g, Count: 8 * g, HdrLen: pos - start}
			for i := 0; i < g; i++ {
				if w == 0 {
					r.Vals = append(r.Vals, make([]uint8, 8)...)
				} else {
					r.Vals = append(r.Vals, SpecUnpack(bs[pos:pos+w], w)...)
				}
				pos += w
			}
			runs = append(runs, r)
		}
	}
	return runs, nil
}

// Flatten returns the values of a run list.
func Flatten(runs []Run) []uint8 {
	var out []uint8
	for _, r := range runs {
		if r.Kind == "rle" {
			for i := 0; i < r.Count; i++ {
				out = append(out, r.Value)
			}
		} else {
			out = append(out, r.Vals...)
		}
	}
	return out
}

// DecodeStream decodes a length-prefixed hybrid stream found at the start of
// bs.  It returns the values (including any padding), the runs and the number
// of bytes the stream occupies (4 + prefix).
func DecodeStream(bs []byte, w int) ([]uint8, []Run, int, error) {
	if len(bs) < 4 {
		return nil, nil, 0, fmt.Errorf("%w: missing length prefix", ErrMalformed)
	}
	n := int(uint32(bs[0]) | uint32(bs[1])<<8 | uint32(bs[2])<<16 | uint32(bs[3])<<24)
	if n < 0 || 4+n > len(bs) {
		return nil, nil, 0, fmt.Errorf("%w: length prefix %d exceeds the %d bytes available", ErrMalformed, n, len(bs)-4)
	}
	runs, err := DecodeRuns(bs[4:4+n], w)
	if err != nil {
		return nil, nil, 0, err
	}
	return Flatten(runs), runs, 4 + n, nil
}

// LEB128 encodes n.
func LEB128(n uint64) []byte {
	var out []byte
	for n >= 0x80 {
		out = append(out, byte(n)|0x80)
		n >>= 7
	}
	return append(out, byte(n))
}

// Seg prescribes one run for the foreign encoder.
type Seg struct {
	RLE bool `json:"rle"`
	N   int  `json:"n"` // number of level entries covered (RLE: run length; bit-packed: values, padded up to a multiple of 8)
	// HdrPad makes the run header non-minimal by that many continuation bytes (legal LEB128).
	HdrPad int `json:"hdrpad,omitempty"`
}

// EncodeSegs encodes levels following exactly the prescribed segmentation.
// pad supplies the junk used to fill the last group of a bit-packed run
// (masked to the width).  It fails if the segmentation does not fit the
// levels (an RLE segment over a non-constant stretch, lengths that do not add
// up, a bit-packed segment that is not last but not a multiple of 8).
func EncodeSegs(levels []uint8, w int, segs []Seg, pad uint8) ([]byte, error) {
	var body []byte
	pos := 0
	for si, s := range segs {
		if s.N < 0 || (s.N == 0 && !s.RLE) || pos+s.N > len(levels) { // RLE with N == 0: an empty run (stands for no value)
			return nil, fmt.Errorf("pq: segment %d does not fit", si)
		}
		hdr := func(h uint64) {
			b := LEB128(h)
			for k := 0; k < s.HdrPad; k++ {
				b[len(b)-1] |= 0x80
				b = append(b, 0)
			}
			body = append(body, b...)
		}
		if s.RLE {
			for i := 1; i < s.N; i++ {
				if levels[pos+i] != levels[pos] {
					return nil, fmt.Errorf("pq: RLE segment %d over a non-constant stretch", si)
				}
			}
			hdr(uint64(s.N) << 1)
			if w > 0 {
				if s.N == 0 {
					body = append(body, pad&uint8(1<<uint(w)-1)) // the value of an empty run is arbitrary
				} else {
					body = append(body, levels[pos])
				}
			}
		} else {
			if s.N%8 != 0 && si != len(segs)-1 {
				return nil, fmt.Errorf("pq: bit-packed segment %d is not a multiple of 8 and not last", si)
			}
			g := (s.N + 7) / 8
			hdr(uint64(g)<<1 | 1)
			vals := append([]uint8{}, levels[pos:pos+s.N]...)
			for len(vals) < 8*g {
				vals = append(vals, pad&uint8(1<<uint(w)-1))
			}
			for i := 0; i < g; i++ {
				body = append(body, SpecPack(vals[8*i:8*i+8], w)...)
			}
		}
		pos += s.N
	}
	if pos != len(levels) {
		return nil, fmt.Errorf("pq: segmentation covers %d of %d levels", pos, len(levels))
	}
	n := len(body)
	out := []byte{byte(n), byte(n >> 8), byte(n >> 16), byte(n >> 24)}
	return append(out, body...), nil
}

// GreedySegs is a simple legal segmentation: RLE for constant stretches >= 8,
// otherwise bit-packed runs of one group (used when a case does not prescribe
// one).
func GreedySegs(levels []uint8) []Seg {
	var segs []Seg
	i := 0
	for i < len(levels) {
		j := i
		for j < len(levels) && levels[j] == levels[i] {
			j++
		}
		if j-i >= 8 {
			segs = append(segs, Seg{RLE: true, N: j - i})
			i = j
			continue
		}
		n := 8
		if i+n > len(levels) {
			n = len(levels) - i
		}
		segs = append(segs, Seg{RLE: false, N: n})
		i += n
	}
	return segs
}

// RandSegs draws a seeded random legal segmentation of levels: RLE runs of any
// length >= 1 over constant stretches (occasionally with a non-minimal
// header), bit-packed runs of 1..4 groups and occasionally 60..209 groups.
func RandSegs(seed uint64, levels []uint8) []Seg {
	s := seed*2862933555777941757 + 3037000493
	next := func(n int) int {
		s = s*6364136223846793005 + 1442695040888963407
		return int((s >> 33) % uint64(n))
	}
	var segs []Seg
	pos := 0
	for pos < len(levels) {
		rem := len(levels) - pos
		c := 1
		for pos+c < len(levels) && levels[pos+c] == levels[pos] {
			c++
		}
		if next(23) == 0 {
			segs = append(segs, Seg{RLE: true, N: 0}) // an empty RLE run
		}
		if next(2) == 0 {
			n := 1 + next(c)
			if next(3) == 0 {
				n = c
			}
			pad := 0
			if next(17) == 0 {
				pad = 1 + next(4) // up to a 5-byte header for a small count
				if n >= 64 {      // keep the whole header within 5 bytes
					pad = 1
				}
				if n >= 1<<20 {
					pad = 0
				}
			}
			segs = append(segs, Seg{RLE: true, N: n, HdrPad: pad})
			pos += n
		} else {
			g := 1 + next(4)
			if next(6) == 0 {
				g = 60 + next(150)
			}
			n := 8 * g
			if n >= rem {
				n = rem
			}
			segs = append(segs, Seg{RLE: false, N: n})
			pos += n
		}
	}
	return segs
}
