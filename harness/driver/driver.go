// Generic conformance driver.  This file is copied verbatim into every
// parquetgen-generated package (package main, record type Rec) and drives the
// real generated writer/reader through scripted behaviours exported by TLC (or
// produced by the seeded random drivers).  It records one ndjson event per API
// call: the call, its result and the projection of the bytes that reached the
// sink (through the harness's independent parser, package pq).  The events are
// judged by the TLA+ trace specifications; nothing is decided here.
package main

import (
	"bufio"
	"bytes"
	"encoding/binary"
	"encoding/json"
	"errors"
	"fmt"
	"io"
	"math"
	"os"
	"reflect"
	"runtime"
	"runtime/debug"
	"sort"
	"strings"
	"sync"
	"time"
	"unicode"
	"unicode/utf8"

	"verifharness/pq"
)

// ---------------------------------------------------------------- schema from the Go type

type node struct {
	Rep  string `json:"rep"` // req | opt | rep
	Typ  string `json:"typ"` // int32 ... string | group
	Name string `json:"name"`
	Kids []node `json:"kids"`
}

// excluded reports whether a struct field is outside the file by the
// documented rules: unexported, or tagged parquet:"-".
func excluded(f reflect.StructField) bool {
	r, _ := utf8.DecodeRuneInString(f.Name)
	if !unicode.IsUpper(r) {
		return true
	}
	return f.Tag.Get("parquet") == "-"
}

func colName(f reflect.StructField) string {
	if t := f.Tag.Get("parquet"); t != "" {
		return t
	}
	return f.Name
}

var leafKinds = map[reflect.Kind]string{
	reflect.Int32: "int32", reflect.Uint32: "uint32", reflect.Int64: "int64", reflect.Uint64: "uint64",
	reflect.Float32: "float32", reflect.Float64: "float64", reflect.Bool: "bool", reflect.String: "string",
}

// kidsOf lists the effective children of a struct type: excluded fields are
// dropped, embedded structs are replaced by their own effective children.
func kidsOf(t reflect.Type) []node {
	var out []node
	for i := 0; i < t.NumField(); i++ {
		f := t.Field(i)
		if f.Anonymous && f.Type.Kind() == reflect.Struct {
			if f.Tag.Get("parquet") == "-" {
				continue
			}
			out = append(out, kidsOf(f.Type)...)
			continue
		}
		if excluded(f) {
			continue
		}
		n, ok := nodeOf(f.Type, colName(f))
		if ok {
			out = append(out, n)
		}
	}
	return out
}

func nodeOf(t reflect.Type, name string) (node, bool) {
	rep := "req"
	switch t.Kind() {
	case reflect.Ptr:
		rep, t = "opt", t.Elem()
	case reflect.Slice:
		rep, t = "rep", t.Elem()
	}
	if k, ok := leafKinds[t.Kind()]; ok {
		return node{Rep: rep, Typ: k, Name: name, Kids: []node{}}, true
	}
	if t.Kind() == reflect.Struct {
		return node{Rep: rep, Typ: "group", Name: name, Kids: kidsOf(t)}, true
	}
	return node{}, false // unsupported type: ignored by the documented rules
}

type column struct {
	pq.Column
	GoType string `json:"gotype"`
}

func columnsOf(kids []node, path []string, reps []int, out *[]column) {
	repn := map[string]int{"req": 0, "opt": 1, "rep": 2}
	for _, k := range kids {
		p := append(append([]string{}, path...), k.Name)
		r := append(append([]int{}, reps...), repn[k.Rep])
		if k.Typ == "group" {
			columnsOf(k.Kids, p, r, out)
			continue
		}
		c := column{GoType: k.Typ}
		c.Path, c.Reps = p, r
		switch k.Typ {
		case "int32":
			c.Type, c.CType = pq.TypeInt32, -1
		case "uint32":
			c.Type, c.CType = pq.TypeInt32, pq.CTypeUint32
		case "int64":
			c.Type, c.CType = pq.TypeInt64, -1
		case "uint64":
			c.Type, c.CType = pq.TypeInt64, pq.CTypeUint64
		case "float32":
			c.Type, c.CType = pq.TypeFloat, -1
		case "float64":
			c.Type, c.CType = pq.TypeDouble, -1
		case "bool":
			c.Type, c.CType = pq.TypeBoolean, -1
		case "string":
			c.Type, c.CType = pq.TypeByteArray, -1
		}
		for _, x := range r {
			if x != 0 {
				c.MaxDef++
			}
			if x == 2 {
				c.MaxRep++
			}
		}
		*out = append(*out, c)
	}
}

// ---------------------------------------------------------------- value pools (token <-> concrete value)

var long300 = strings.Repeat("0123456789abcdef", 19)[:300]
var k63 = strings.Repeat("k", 63)
var long70k = strings.Repeat("The quick brown fox \x00\xff jumps. ", 2400)[:70000]

var pools = map[string][]interface{}{
	"int32":   {int32(0), int32(1), int32(-1), int32(math.MinInt32), int32(math.MaxInt32), int32(2), int32(-2), int32(127), int32(128), int32(255), int32(256), int32(-129), int32(65535), int32(65536), int32(1 << 30), int32(-(1 << 30))},
	"uint32":  {uint32(0), uint32(1), uint32(math.MaxUint32), uint32(1 << 31), uint32(1<<31 - 1), uint32(2), uint32(3), uint32(127), uint32(128), uint32(255), uint32(256), uint32(65535), uint32(65536), uint32(1 << 30), uint32(math.MaxUint32 - 1), uint32(1<<31 + 1)},
	"int64":   {int64(0), int64(1), int64(-1), int64(math.MinInt64), int64(math.MaxInt64), int64(2), int64(-2), int64(math.MaxInt32), int64(math.MinInt32), int64(1 << 32), int64(-(1 << 32)), int64(255), int64(256), int64(-129), int64(1 << 62), int64(-(1 << 62))},
	"uint64":  {uint64(0), uint64(1), uint64(math.MaxUint64), uint64(1 << 63), uint64(1<<63 - 1), uint64(2), uint64(3), uint64(math.MaxUint32), uint64(1 << 32), uint64(255), uint64(256), uint64(65535), uint64(65536), uint64(1 << 62), uint64(math.MaxUint64 - 1), uint64(1<<63 + 1)},
	"float32": {float32(0), math.Float32frombits(0x80000000), float32(1), float32(-1), float32(math.Inf(1)), float32(math.Inf(-1)), math.Float32frombits(0x7fc00000), math.Float32frombits(0x7fc12345), math.Float32frombits(0xffa00001), math.Float32frombits(1), float32(math.MaxFloat32), float32(-math.MaxFloat32), float32(1.17549435e-38), float32(3.14159), float32(-2.5), float32(1e10)},
	"float64": {float64(0), math.Float64frombits(0x8000000000000000), float64(1), float64(-1), math.Inf(1), math.Inf(-1), math.Float64frombits(0x7ff8000000000000), math.Float64frombits(0x7ff8000000abcdef), math.Float64frombits(0xfff4000000000001), math.Float64frombits(1), math.MaxFloat64, -math.MaxFloat64, 2.2250738585072014e-308, 3.14159, -2.5, 1e100},
	"bool":    {false, true},
	"string": {"", "a", "b", "__#NIL#__", "\xff", "\xff\xfe", long300, "a\x00b", "zz", "Z", "ä", " ", "__#NIL#__x", "\x00", "abc", "ab", "__#NIL#_", "~", "\xc3\x28", "A",
		// long strings that share long prefixes and have 0xff bytes around the lengths at which a writer might truncate statistics,
		// and strings that look like the tail of a file (length + magic)
		k63, k63 + "\xff", k63 + "\xfftail", k63 + "k", k63[:15] + "\xff\xfft", k63[:31] + "\xff\xfft", k63 + k63 + "k\xff\xfft",
		k63 + k63 + k63 + k63 + "kkk\xff\xfft", "\xff\xff\xff\xffPAR1", "PAR1", k63[:7] + "\xff\xfft", k63 + "\x00"},
}

// bigPools add a 70 kB string; used by the random drivers only.
var bigString = long70k

// noisyString: 70 kB that no codec can shrink (a page that holds it stays above 64 KiB under snappy and gzip as well); token 998
var noisyString = func() string {
	b := make([]byte, 70001)
	x := uint64(0x9E3779B97F4A7C15)
	for i := range b {
		x ^= x << 13
		x ^= x >> 7
		x ^= x << 17
		b[i] = byte(x >> 24)
	}
	return string(b)
}()

// embeddedFile: a complete, valid parquet file of its own (one required int64 column that no struct of the harness has, one row
// group of three rows, written by the harness's writer), used as a STRING VALUE (token 997).  An outer file that stores the value
// verbatim has a strict prefix that ends in a genuine footer, footer length and magic; the reader must refuse it all the same - it
// is not the file it was asked to read (its columns are not the struct's).  (A value that is a complete EMPTY parquet file is not
// used: the prefix that ends behind it is indistinguishable from a valid empty file for any reader that locates the footer from
// the end.)
var embeddedFile = func() string {
	col := pq.Column{Path: []string{"zz_in_no_struct"}, Type: pq.TypeInt64, CType: -1, Reps: []int{pq.RepRequired}}
	pg := pq.PageSpec{Reps: []uint8{0, 0, 0}, Defs: []uint8{0, 0, 0}, Values: []pq.Val{{Bits: 1}, {Bits: 2}, {Bits: 3}}}
	spec := pq.FileSpec{FileOffset: "start", Schema: []pq.SchemaElem{{Name: "schema", Type: -1, CType: -1, Rep: -1, NumChildren: 1},
		{Name: "zz_in_no_struct", Type: pq.TypeInt64, CType: -1, Rep: pq.RepRequired, NumChildren: -1}},
		RowGroups: []pq.RGSpec{{NumRows: 3, Chunks: []pq.ChunkSpec{{Col: col, Codec: pq.CodecUncompressed, Pages: []pq.PageSpec{pg}}}}}}
	b, err := pq.WriteFile(spec)
	if err != nil {
		panic("embedded file: " + err.Error())
	}
	return string(b)
}()

// tailLike: string values that read as "footer length, magic" - the last eight bytes of a file - with lengths around 64 KiB
// (tokens 994..996); cut right behind such a value, a file of more than 64 KiB ends in a well-formed trailer whose length
// points just outside, at or just inside a 64 KiB window
var tailLike = map[int]string{996: "\xff\xff\x00\x00PAR1", 995: "\x00\x00\x01\x00PAR1", 994: "\xf9\xff\x00\x00PAR1"}

func poolVal(typ string, tok, poff int) interface{} {
	p := pools[typ]
	i := (tok + poff) % len(p)
	if i < 0 {
		i += len(p)
	}
	return p[i]
}

func bitsOf(v interface{}) (uint64, []byte) {
	switch x := v.(type) {
	case int32:
		return uint64(uint32(x)), nil
	case uint32:
		return uint64(x), nil
	case int64:
		return uint64(x), nil
	case uint64:
		return x, nil
	case float32:
		return uint64(math.Float32bits(x)), nil
	case float64:
		return math.Float64bits(x), nil
	case bool:
		if x {
			return 1, nil
		}
		return 0, nil
	case string:
		return 0, []byte(x)
	}
	panic("bitsOf")
}

// tokOfBits maps a concrete value (by bit pattern / bytes) back to its token;
// values outside the pool get a token that can never equal an expected one
// (-1000000 - hash) so that the judge sees a mismatch, not an evaluation error.
func tokOfBits(typ string, bits uint64, bs []byte, poff int) int {
	p := pools[typ]
	for i, v := range p {
		b, s := bitsOf(v)
		if typ == "string" {
			if bytes.Equal(s, bs) {
				return ((i-poff)%len(p) + len(p)) % len(p)
			}
		} else if b == bits {
			return ((i-poff)%len(p) + len(p)) % len(p)
		}
	}
	if typ == "string" && string(bs) == noisyString {
		return 998
	}
	if typ == "string" && string(bs) == embeddedFile {
		return 997
	}
	if typ == "string" {
		for t, v := range tailLike {
			if string(bs) == v {
				return t
			}
		}
	}
	if typ == "string" && string(bs) == bigString {
		return 999
	}
	h := bits
	for _, c := range bs {
		h = h*131 + uint64(c)
	}
	return -1000000 - int(h%100000)
}

// ---------------------------------------------------------------- abstract records <-> Go values
//
// abstract value: required -> the value itself; optional -> [] or [v];
// repeated -> list; group -> list of its effective children; leaf -> token.

type buildCtx struct{ poff int }

func toInt(x interface{}) int {
	switch v := x.(type) {
	case float64:
		return int(v)
	case int:
		return v
	case json.Number:
		i, _ := v.Int64()
		return int(i)
	}
	panic(fmt.Sprintf("abstract value: expected a token, got %T", x))
}

func toList(x interface{}) []interface{} {
	l, ok := x.([]interface{})
	if !ok {
		panic(fmt.Sprintf("abstract value: expected a list, got %T", x))
	}
	return l
}

// fill sets v (of type t) from the abstract value a.
func (c buildCtx) fill(v reflect.Value, a interface{}) {
	t := v.Type()
	switch t.Kind() {
	case reflect.Ptr:
		l := toList(a)
		if len(l) == 0 {
			v.Set(reflect.Zero(t))
			return
		}
		nv := reflect.New(t.Elem())
		c.fillBase(nv.Elem(), l[0])
		v.Set(nv)
	case reflect.Slice:
		l := toList(a)
		if len(l) == 0 {
			v.Set(reflect.Zero(t))
			return
		}
		s := reflect.MakeSlice(t, len(l), len(l))
		for i := range l {
			c.fillBase(s.Index(i), l[i])
		}
		v.Set(s)
	default:
		c.fillBase(v, a)
	}
}

func (c buildCtx) fillBase(v reflect.Value, a interface{}) {
	t := v.Type()
	if k, ok := leafKinds[t.Kind()]; ok {
		tok := toInt(a)
		if k == "string" && tok == 999 {
			v.SetString(bigString)
			return
		}
		if k == "string" && tok == 998 {
			v.SetString(noisyString)
			return
		}
		if k == "string" && tok == 997 {
			v.SetString(embeddedFile)
			return
		}
		if tl, ok := tailLike[tok]; ok && k == "string" {
			v.SetString(tl)
			return
		}
		v.Set(reflect.ValueOf(poolVal(k, tok, c.poff)).Convert(t))
		return
	}
	l := toList(a)
	idx := 0
	c.fillStruct(v, l, &idx)
	if idx != len(l) {
		panic("abstract value: too many children for group")
	}
}

func (c buildCtx) fillStruct(v reflect.Value, l []interface{}, idx *int) {
	t := v.Type()
	for i := 0; i < t.NumField(); i++ {
		f := t.Field(i)
		if f.Anonymous && f.Type.Kind() == reflect.Struct {
			if f.Tag.Get("parquet") == "-" {
				continue
			}
			c.fillStruct(v.Field(i), l, idx)
			continue
		}
		if excluded(f) {
			// excluded fields must have no effect on the file: give them a non-zero value where reflection can
			if v.Field(i).CanSet() {
				setNonZero(v.Field(i), 0)
			}
			continue
		}
		if _, ok := nodeOf(f.Type, ""); !ok {
			if v.Field(i).CanSet() {
				setNonZero(v.Field(i), 0)
			}
			continue
		}
		if *idx >= len(l) {
			panic("abstract value: too few children for group")
		}
		c.fill(v.Field(i), l[*idx])
		*idx++
	}
}

// setNonZero gives a value some non-zero content (best effort).
func setNonZero(v reflect.Value, depth int) {
	if depth > 3 || !v.CanSet() {
		return
	}
	switch v.Kind() {
	case reflect.Int, reflect.Int8, reflect.Int16, reflect.Int32, reflect.Int64:
		v.SetInt(7)
	case reflect.Uint, reflect.Uint8, reflect.Uint16, reflect.Uint32, reflect.Uint64:
		v.SetUint(7)
	case reflect.Float32, reflect.Float64:
		v.SetFloat(7.5)
	case reflect.Bool:
		v.SetBool(true)
	case reflect.String:
		v.SetString("excluded")
	case reflect.Ptr:
		nv := reflect.New(v.Type().Elem())
		setNonZero(nv.Elem(), depth+1)
		v.Set(nv)
	case reflect.Slice:
		s := reflect.MakeSlice(v.Type(), 2, 2)
		setNonZero(s.Index(0), depth+1)
		v.Set(s)
	case reflect.Map:
		v.Set(reflect.MakeMap(v.Type()))
	case reflect.Struct:
		for i := 0; i < v.NumField(); i++ {
			setNonZero(v.Field(i), depth+1)
		}
	case reflect.Array:
		for i := 0; i < v.Len(); i++ {
			setNonZero(v.Index(i), depth+1)
		}
	}
}

// abstract maps a Go value back to its abstract value.
func (c buildCtx) abstract(v reflect.Value) interface{} {
	t := v.Type()
	switch t.Kind() {
	case reflect.Ptr:
		if v.IsNil() {
			return []interface{}{}
		}
		return []interface{}{c.abstractBase(v.Elem())}
	case reflect.Slice:
		out := make([]interface{}, 0, v.Len())
		for i := 0; i < v.Len(); i++ {
			out = append(out, c.abstractBase(v.Index(i)))
		}
		return out
	}
	return c.abstractBase(v)
}

func (c buildCtx) abstractBase(v reflect.Value) interface{} {
	t := v.Type()
	if k, ok := leafKinds[t.Kind()]; ok {
		var b uint64
		var s []byte
		switch t.Kind() {
		case reflect.Int32:
			b = uint64(uint32(v.Int()))
		case reflect.Int64:
			b = uint64(v.Int())
		case reflect.Uint32, reflect.Uint64:
			b = v.Uint()
		case reflect.Float32:
			// not v.Float(): widening to float64 quiets signalling NaNs
			if f, ok := v.Interface().(float32); ok {
				b = uint64(math.Float32bits(f))
			} else {
				b = uint64(math.Float32bits(float32(v.Float())))
			}
		case reflect.Float64:
			b = math.Float64bits(v.Float())
		case reflect.Bool:
			if v.Bool() {
				b = 1
			}
		case reflect.String:
			s = []byte(v.String())
		}
		return tokOfBits(k, b, s, c.poff)
	}
	out := []interface{}{}
	c.abstractStruct(v, &out)
	return out
}

func (c buildCtx) abstractStruct(v reflect.Value, out *[]interface{}) {
	t := v.Type()
	for i := 0; i < t.NumField(); i++ {
		f := t.Field(i)
		if f.Anonymous && f.Type.Kind() == reflect.Struct {
			if f.Tag.Get("parquet") == "-" {
				continue
			}
			c.abstractStruct(v.Field(i), out)
			continue
		}
		if excluded(f) {
			continue
		}
		if _, ok := nodeOf(f.Type, ""); !ok {
			continue
		}
		*out = append(*out, c.abstract(v.Field(i)))
	}
}

// excludedZero reports whether every excluded field reachable in v is zero.
func excludedZero(v reflect.Value) bool {
	t := v.Type()
	switch t.Kind() {
	case reflect.Ptr:
		if v.IsNil() {
			return true
		}
		return excludedZero(v.Elem())
	case reflect.Slice:
		for i := 0; i < v.Len(); i++ {
			if !excludedZero(v.Index(i)) {
				return false
			}
		}
		return true
	case reflect.Struct:
		for i := 0; i < t.NumField(); i++ {
			f := t.Field(i)
			if f.Anonymous && f.Type.Kind() == reflect.Struct && f.Tag.Get("parquet") != "-" {
				if !excludedZero(v.Field(i)) {
					return false
				}
				continue
			}
			if excluded(f) {
				if !v.Field(i).IsZero() {
					return false
				}
				continue
			}
			if _, ok := nodeOf(f.Type, ""); !ok {
				if !v.Field(i).IsZero() {
					return false
				}
				continue
			}
			if !excludedZero(v.Field(i)) {
				return false
			}
		}
	}
	return true
}

// scribble overwrites every pointer target and slice element reachable from v
// (used after Add: the writer must have copied what it needs).
func scribble(v reflect.Value) {
	t := v.Type()
	switch t.Kind() {
	case reflect.Ptr:
		if !v.IsNil() {
			scribbleBase(v.Elem())
		}
	case reflect.Slice:
		for i := 0; i < v.Len(); i++ {
			scribbleBase(v.Index(i))
		}
	case reflect.Struct:
		for i := 0; i < t.NumField(); i++ {
			if v.Field(i).CanSet() {
				scribble(v.Field(i))
			}
		}
	}
}

func scribbleBase(v reflect.Value) {
	if !v.CanSet() {
		return
	}
	switch v.Kind() {
	case reflect.Int32, reflect.Int64:
		v.SetInt(v.Int() ^ 0x5a5a5a5)
	case reflect.Uint32, reflect.Uint64:
		v.SetUint(v.Uint() ^ 0x5a5a5a5)
	case reflect.Float32, reflect.Float64:
		v.SetFloat(12345.5)
	case reflect.Bool:
		v.SetBool(!v.Bool())
	case reflect.String:
		v.SetString("SCRIBBLED")
	case reflect.Struct, reflect.Ptr, reflect.Slice:
		scribble(v)
	}
}

// ---------------------------------------------------------------- sink and source wrappers

var errInjected = errors.New("verif: injected fault")

type gate struct {
	mu      sync.Mutex
	waiting map[int]chan struct{}
	arrived chan int
}

type sink struct {
	buf      []byte
	calls    []int // length of every Write call that was accepted
	nCalls   int   // number of Write calls seen (incl. failed)
	faultAt  int   // 1-based index of the call that fails (0 = none)
	faultHow string
	faulted  bool
	inst     int
	g        *gate // when set, every call blocks until released (C13)
	events   *[]sinkEv
}

type sinkEv struct {
	Inst int
	Data []byte
}

func (s *sink) Write(p []byte) (int, error) {
	s.nCalls++
	if s.g != nil {
		s.g.wait(s.inst)
	}
	if s.faultAt > 0 && s.nCalls == s.faultAt {
		s.faulted = true
		if s.faultHow == "half" {
			n := len(p) / 2
			s.buf = append(s.buf, p[:n]...)
			return n, errInjected
		}
		if s.faultHow == "full" { // every byte accepted and still an error (a deferred failure of the device)
			s.buf = append(s.buf, p...)
			return len(p), errInjected
		}
		return 0, errInjected
	}
	// copy only now: a buffer released too early may have been overwritten
	s.buf = append(s.buf, p...)
	s.calls = append(s.calls, len(p))
	return len(p), nil
}

func (g *gate) wait(inst int) {
	ch := make(chan struct{})
	g.mu.Lock()
	g.waiting[inst] = ch
	g.mu.Unlock()
	g.arrived <- inst
	<-ch
}

// source is an io.ReadSeeker over a byte slice with call counting,
// fragmentation and fault injection.
type source struct {
	data   []byte
	pos    int64
	nCalls int // Read and Seek calls seen
	nReads int
	trace  []string // kind of every call ("r"/"s")
	// fragmentation
	chunk     int // >0: every Read returns at most chunk bytes
	shortAt   int // >0: only Read call number shortAt is short ...
	shortHow  string
	eofData   bool       // return n>0 together with io.EOF when a Read reaches the end
	randShort func() int // when set: returns the max bytes for this read (>=1)
	// faults
	faultAt   int    // 1-based index over all Read+Seek calls
	faultKind string // zero | half | eof | ueof
	sticky    bool
	faulted   bool
	inst      int
	g         *gate
	// faultBigAt > 0: the fault hits the faultBigAt-th Read of more than 8 bytes instead of a given call index
	faultBigAt int
	nBig       int
}

func (s *source) Read(p []byte) (int, error) {
	s.nCalls++
	s.nReads++
	if s.g != nil {
		s.g.wait(s.inst)
	}
	if s.faultBigAt > 0 && len(p) > 8 { // count only the reads of more than 8 bytes (page bodies, footer): fail the faultBigAt-th of them
		s.nBig++
		if s.nBig == s.faultBigAt {
			s.faultAt, s.faultBigAt = s.nCalls, 0
		}
	}
	if s.faultAt > 0 && (s.nCalls == s.faultAt || (s.sticky && s.nCalls > s.faultAt)) {
		s.faulted = true
		switch s.faultKind {
		case "eof":
			return 0, io.EOF
		case "ueof":
			return 0, io.ErrUnexpectedEOF
		case "half":
			n := len(p) / 2
			if rem := int(int64(len(s.data)) - s.pos); n > rem {
				n = rem
			}
			if n < 0 {
				n = 0
			}
			copy(p, s.data[s.pos:s.pos+int64(n)])
			s.pos += int64(n)
			return n, errInjected
		default:
			return 0, errInjected
		}
	}
	if len(p) == 0 {
		return 0, nil
	}
	if s.pos >= int64(len(s.data)) {
		return 0, io.EOF
	}
	n := len(p)
	if s.chunk > 0 && n > s.chunk {
		n = s.chunk
	}
	if s.randShort != nil {
		if m := s.randShort(); n > m {
			n = m
		}
	}
	if s.shortAt > 0 && s.nReads == s.shortAt {
		m := 1
		if s.shortHow == "half" {
			m = (len(p) + 1) / 2
		}
		if n > m {
			n = m
		}
	}
	if rem := int(int64(len(s.data)) - s.pos); n > rem {
		n = rem
	}
	copy(p, s.data[s.pos:s.pos+int64(n)])
	s.pos += int64(n)
	if s.eofData && s.pos == int64(len(s.data)) {
		return n, io.EOF
	}
	return n, nil
}

func (s *source) Seek(off int64, whence int) (int64, error) {
	s.nCalls++
	if s.faultAt > 0 && (s.nCalls == s.faultAt || (s.sticky && s.nCalls > s.faultAt)) {
		s.faulted = true
		return 0, errInjected
	}
	var abs int64
	switch whence {
	case io.SeekStart:
		abs = off
	case io.SeekCurrent:
		abs = s.pos + off
	case io.SeekEnd:
		abs = int64(len(s.data)) + off
	default:
		return 0, errors.New("source: invalid whence")
	}
	if abs < 0 {
		return 0, errors.New("source: negative position")
	}
	s.pos = abs
	return abs, nil
}

// ---------------------------------------------------------------- job description

type op struct {
	Op  string      `json:"op"` // add | write | close
	Rec interface{} `json:"rec,omitempty"`
}

type readSpec struct {
	Mode     string `json:"mode"` // plain | chunk | shortat | eofdata | rand | fault | trunc | scanstable
	Chunk    int    `json:"chunk,omitempty"`
	At       int    `json:"at,omitempty"`
	How      string `json:"how,omitempty"`
	Kind     string `json:"kind,omitempty"`
	Sticky   bool   `json:"sticky,omitempty"`
	Len      int    `json:"len,omitempty"`
	Seed     int64  `json:"seed,omitempty"`
	EOFData  bool   `json:"eofdata,omitempty"`
	AllAt    bool   `json:"allat,omitempty"`    // expand to every call index of the plain run
	AllTrunc bool   `json:"alltrunc,omitempty"` // expand to every strict prefix
}

type jobCase struct {
	ID        string      `json:"id"`
	Page      int         `json:"page"`
	Codec     string      `json:"codec"`
	Poff      int         `json:"poff"`
	Ops       []op        `json:"ops"`
	Mutate    bool        `json:"mutate,omitempty"`
	SinkFault int         `json:"sinkfault,omitempty"` // k (1-based), 0 = none, -1 = every k
	FaultHow  string      `json:"faulthow,omitempty"`
	Reads     []readSpec  `json:"reads,omitempty"`
	Intro     bool        `json:"intro,omitempty"`   // also run the introspection calls (C16)
	Foreign   interface{} `json:"foreign,omitempty"` // foreign file spec (C04/C18), see foreign.go
	Expect    interface{} `json:"expect,omitempty"`  // logical rows of a foreign file
	KeepFile  string      `json:"keepfile,omitempty"`
	Light     bool        `json:"light,omitempty"`    // omit page level/value detail from events
	Bulk      *bulkSpec   `json:"bulk,omitempty"`     // a workload too large for one trace event per record: compared in Go, judged as one event
	Sched     interface{} `json:"sched,omitempty"`    // instances + schedule (C13), see sched.go
	ReadFile  string      `json:"readfile,omitempty"` // read this file instead of writing one (C15); Expect holds its logical rows
}

type job struct {
	Cases []jobCase `json:"cases"`
}

type event map[string]interface{}

var out *bufio.Writer

func emit(e event) {
	b, err := json.Marshal(e)
	if err != nil {
		panic(err)
	}
	out.Write(b)
	out.WriteByte('\n')
	if e["ev"] == "Reset" {
		out.Flush() // if the process dies in this case (a runtime fatal error in a library call), the marker must be on disk
	}
	if aborted != "" && (e["ev"] == "Read" || e["ev"] == "Bulk") {
		out.WriteString(`{"ev":"Aborted","detail":"driver stopped after a runaway call"}` + "\n")
		out.Flush()
		os.Exit(0)
	}
}

// ---------------------------------------------------------------- projection of sink bytes

func u8ints(x []uint8) []int {
	out := make([]int, len(x))
	for i, v := range x {
		out[i] = int(v)
	}
	return out
}

func allZero(x []uint8) bool {
	for _, v := range x {
		if v != 0 {
			return false
		}
	}
	return true
}

// ---- type order for statistics (trusted base, see DESIGN §2.2)

func isNaN(typ string, bits uint64) bool {
	switch typ {
	case "float32":
		f := math.Float32frombits(uint32(bits))
		return f != f
	case "float64":
		f := math.Float64frombits(bits)
		return f != f
	}
	return false
}

// less is the column type's order: signed, unsigned, IEEE (with -0 = +0), bytewise.
func less(typ string, a, b pq.Val) bool {
	switch typ {
	case "int32":
		return int32(uint32(a.Bits)) < int32(uint32(b.Bits))
	case "int64":
		return int64(a.Bits) < int64(b.Bits)
	case "uint32", "uint64":
		return a.Bits < b.Bits
	case "float32":
		return math.Float32frombits(uint32(a.Bits)) < math.Float32frombits(uint32(b.Bits))
	case "float64":
		return math.Float64frombits(a.Bits) < math.Float64frombits(b.Bits)
	case "bool":
		return a.Bits < b.Bits
	case "string":
		return bytes.Compare(a.Bytes, b.Bytes) < 0
	}
	return false
}

func statVal(typ string, b []byte) (pq.Val, bool) {
	switch typ {
	case "int32", "uint32", "float32":
		if len(b) != 4 {
			return pq.Val{}, false
		}
		return pq.Val{Bits: uint64(uint32(b[0]) | uint32(b[1])<<8 | uint32(b[2])<<16 | uint32(b[3])<<24)}, true
	case "int64", "uint64", "float64":
		if len(b) != 8 {
			return pq.Val{}, false
		}
		var u uint64
		for i := 7; i >= 0; i-- {
			u = u<<8 | uint64(b[i])
		}
		return pq.Val{Bits: u}, true
	case "bool":
		if len(b) != 1 {
			return pq.Val{}, false
		}
		return pq.Val{Bits: uint64(b[0])}, true
	}
	return pq.Val{Bytes: b}, true
}

// statsObs turns the page statistics into ranks: ords[i] is the rank of the
// i-th non-null value in the type's order (-1 for NaN), minord / maxord the
// ranks of the recorded bounds among the same values.
func statsObs(c column, p *pq.Page) event {
	st := p.Hdr.Stats
	e := event{"present": st != nil, "hasnull": false, "nullcount": -1, "hasmin": false, "hasmax": false,
		"minord": 0, "maxord": 0, "ords": []int{}, "bad": ""}
	if st == nil {
		return e
	}
	e["hasnull"], e["nullcount"] = st.HasNull, st.NullCount
	if !st.HasNull {
		e["nullcount"] = -1
	}
	// the library writes min_value / max_value; the deprecated fields are judged the same way if present
	minB, hasMin := st.Min, st.HasMin
	maxB, hasMax := st.Max, st.HasMax
	if !hasMin && st.HasOldMin {
		minB, hasMin = st.OldMin, true
	}
	if !hasMax && st.HasOldMax {
		maxB, hasMax = st.OldMax, true
	}
	e["hasmin"], e["hasmax"] = hasMin, hasMax
	// rank everything together
	type item struct {
		v    pq.Val
		kind int // 0 value, 1 min, 2 max
		idx  int
	}
	var items []item
	ords := make([]int, len(p.Values))
	for i, v := range p.Values {
		if isNaN(c.GoType, v.Bits) {
			ords[i] = -1
			continue
		}
		items = append(items, item{v, 0, i})
	}
	minNaN, maxNaN := false, false
	if hasMin {
		v, ok := statVal(c.GoType, minB)
		if !ok {
			e["bad"] = fmt.Sprintf("min has %d bytes", len(minB))
			hasMin = false
		} else if isNaN(c.GoType, v.Bits) {
			minNaN = true
		} else {
			items = append(items, item{v, 1, 0})
		}
	}
	if hasMax {
		v, ok := statVal(c.GoType, maxB)
		if !ok {
			e["bad"] = fmt.Sprintf("max has %d bytes", len(maxB))
			hasMax = false
		} else if isNaN(c.GoType, v.Bits) {
			maxNaN = true
		} else {
			items = append(items, item{v, 2, 0})
		}
	}
	sort.SliceStable(items, func(i, j int) bool { return less(c.GoType, items[i].v, items[j].v) })
	rank := 0
	for i, it := range items {
		if i > 0 && less(c.GoType, items[i-1].v, it.v) {
			rank++
		}
		switch it.kind {
		case 0:
			ords[it.idx] = rank
		case 1:
			e["minord"] = rank
		case 2:
			e["maxord"] = rank
		}
	}
	if minNaN {
		e["minord"] = 1000000 // a NaN bound bounds nothing
	}
	if maxNaN {
		e["maxord"] = -1000000
	}
	e["ords"] = ords
	return e
}

func pageObs(c column, ci int, p *pq.Page, poff int, light bool) event {
	toks := make([]int, len(p.Values))
	for i, v := range p.Values {
		toks[i] = tokOfBits(c.GoType, v.Bits, v.Bytes, poff)
	}
	firstRep := 0
	if len(p.Reps) > 0 {
		firstRep = int(p.Reps[0])
	}
	reps, defs := u8ints(p.Reps), u8ints(p.Defs)
	if c.MaxRep == 0 {
		reps = make([]int, p.Hdr.NumValues)
	}
	if c.MaxDef == 0 && p.Hdr.NumValues >= 0 {
		defs = make([]int, p.Hdr.NumValues)
	}
	probs := p.Problems
	if probs == nil {
		probs = []string{}
	}
	e := event{
		"col": ci + 1, "off": p.Off, "hlen": p.Hdr.HdrLen, "clen": p.Hdr.Comp, "ulen": p.Hdr.Uncomp,
		"nvals": p.Hdr.NumValues, "nrecs": p.Records, "replen": p.RepLen, "deflen": p.DefLen, "vallen": p.ValLen,
		"nonnull": p.NonNull, "firstrep": firstRep, "ptype": p.Hdr.Type, "enc": p.Hdr.Enc, "denc": p.Hdr.DefEnc, "renc": p.Hdr.RepEnc,
		"datalen": len(p.Data), "problems": probs,
		"padr": len(p.RepPad), "padd": len(p.DefPad), "padzero": allZero(p.RepPad) && allZero(p.DefPad),
		"stats": statsObs(c, p),
	}
	if !light {
		e["reps"], e["defs"], e["toks"] = reps, defs, toks
	}
	return e
}

// projectWrite parses the bytes file[start:end] written by one Write call of a
// batch of nrec records: for every column in schema order, pages are consumed
// until they hold nrec records.
func projectWrite(file []byte, start, end, nrec int, cols []column, codec int, poff int, light bool) (pages []event, problems []string, orphan int) {
	pages, problems = []event{}, []string{}
	pos := start
	if nrec == 0 {
		return pages, problems, end - start
	}
	for ci, c := range cols {
		recs := 0
		for recs < nrec {
			if pos >= end {
				problems = append(problems, fmt.Sprintf("column %s: bytes end after %d of %d records", c.Name(), recs, nrec))
				return
			}
			p, err := pq.DecodePage(file[:end], pos, c.Column, codec)
			if err != nil {
				problems = append(problems, fmt.Sprintf("column %s: %v", c.Name(), err))
				return
			}
			pages = append(pages, pageObs(c, ci, p, poff, light))
			if len(p.Problems) > 0 && p.Values == nil {
				problems = append(problems, fmt.Sprintf("column %s page at %d: %s", c.Name(), pos, strings.Join(p.Problems, "; ")))
				return
			}
			recs += p.Records
			pos = p.End()
		}
	}
	if pos != end {
		problems = append(problems, fmt.Sprintf("%d bytes follow the last page of the batch", end-pos))
	}
	return
}

func schemaObs(s []pq.SchemaElem) []event {
	out := []event{}
	for _, e := range s {
		out = append(out, event{"name": e.Name, "type": e.Type, "ctype": e.CType, "rep": e.Rep, "nch": e.NumChildren})
	}
	return out
}

// projectFooter decodes the footer and walks every chunk from the offsets the
// footer records (the reader that knows only the Parquet specification).
func projectFooter(file []byte, poff int) event {
	f, err := pq.ParseFooter(file)
	if err != nil {
		return event{"ok": false, "err": err.Error(), "schema": []event{}, "rgs": []event{}, "numrows": -1, "treeok": false, "leaves": []event{}}
	}
	e := event{"ok": true, "err": "", "numrows": f.NumRows, "schema": schemaObs(f.Schema), "version": f.Version, "footeroff": f.FooterOff}
	cols, cerr := pq.Columns(f.Schema)
	e["treeok"] = cerr == nil
	e["treeerr"] = ""
	if cerr != nil {
		e["treeerr"] = cerr.Error()
	}
	leaves := []event{}
	byPath := map[string]pq.Column{}
	for _, c := range cols {
		leaves = append(leaves, event{"path": c.Name(), "type": c.Type, "ctype": c.CType, "reps": c.Reps})
		byPath[c.Name()] = c
	}
	e["leaves"] = leaves
	rgs := []event{}
	for _, rg := range f.RowGroups {
		chunks := []event{}
		for _, ch := range rg.Columns {
			ce := event{"path": strings.Join(ch.Path, "."), "type": ch.Type, "codec": ch.Codec, "nvals": ch.NumValues,
				"tu": ch.TotalUncomp, "tc": ch.TotalComp, "dpo": ch.DataPageOffset, "fo": ch.FileOffset, "hasdict": ch.HasDictOffset,
				"walkok": false, "walkerr": "", "walkoffs": []int{}, "walkend": -1}
			col, ok := byPath[strings.Join(ch.Path, ".")]
			if !ok {
				ce["walkerr"] = "path is not a leaf of the footer schema"
			} else {
				offs := []int{}
				pos := int(ch.DataPageOffset)
				var n int64
				werr := ""
				for n < ch.NumValues {
					p, err := pq.DecodePage(file[:f.FooterOff], pos, col, ch.Codec)
					if err != nil {
						werr = err.Error()
						break
					}
					if len(p.Problems) > 0 {
						werr = strings.Join(p.Problems, "; ")
						break
					}
					offs = append(offs, pos)
					n += int64(p.Hdr.NumValues)
					pos = p.End()
					if p.Hdr.NumValues == 0 && len(offs) > 1000 {
						werr = "endless run of empty pages"
						break
					}
				}
				ce["walkok"], ce["walkerr"], ce["walkoffs"], ce["walkend"] = werr == "" && n == ch.NumValues, werr, offs, pos
			}
			chunks = append(chunks, ce)
		}
		rgs = append(rgs, event{"numrows": rg.NumRows, "tbs": rg.TotalByteSize, "cols": chunks})
	}
	e["rgs"] = rgs
	return e
}

// ---------------------------------------------------------------- running a case

var codecOpt = map[string]func(*ParquetWriter) error{"uncompressed": Uncompressed, "snappy": Snappy, "gzip": Gzip}
var codecNum = map[string]int{"uncompressed": pq.CodecUncompressed, "snappy": pq.CodecSnappy, "gzip": pq.CodecGzip}

func protect(f func()) (panicked string) {
	defer func() {
		if r := recover(); r != nil {
			panicked = fmt.Sprintf("%v\n%s", r, debug.Stack())
			if len(panicked) > 1500 {
				panicked = panicked[:1500]
			}
		}
	}()
	f()
	return ""
}

// guarded runs f like protect, but gives up when f does not return in time or the heap explodes: a reader that loops
// or allocates without bound on some input is a verdict about the library ("runaway"), not a dead driver.  After a
// runaway the process cannot be trusted any more: the event that carries the verdict is written, then the driver exits.
var aborted string

func guarded(f func()) string {
	limit := 90 * time.Second
	if v := os.Getenv("VERIF_CALL_TIMEOUT"); v != "" {
		if d, err := time.ParseDuration(v); err == nil {
			limit = d
		}
	}
	return guardedFor(limit, f)
}

func guardedFor(limit time.Duration, f func()) string {
	const memLimit = 6 << 30
	done := make(chan string, 1)
	go func() { done <- protect(f) }()
	t := time.NewTicker(25 * time.Millisecond)
	defer t.Stop()
	start := time.Now()
	var ms runtime.MemStats
	n := 0
	for {
		select {
		case p := <-done:
			return p
		case <-t.C:
			n++
			if time.Since(start) > limit {
				aborted = fmt.Sprintf("runaway: the call did not return within %s", limit)
				return aborted
			}
			if n%4 == 0 {
				runtime.ReadMemStats(&ms)
				if ms.HeapAlloc > memLimit {
					aborted = fmt.Sprintf("runaway: heap grew to %d MiB during the call", ms.HeapAlloc>>20)
					return aborted
				}
			}
		}
	}
}

func resOf(err error, pan string) string {
	if pan != "" {
		return "panic"
	}
	if err != nil {
		return "err"
	}
	return "ok"
}

func errStr(err error) string {
	if err == nil {
		return ""
	}
	s := err.Error()
	if len(s) > 300 {
		s = s[:300]
	}
	return s
}

var schemaRoot []node
var cols []column

// runWriter executes the writer part of a case.  It returns the sink and
// whether the writer ran to a successful Close.
func runWriter(c jobCase, faultAt int, quiet bool) (*sink, bool) {
	ctx := buildCtx{poff: c.Poff}
	snk := &sink{faultAt: faultAt, faultHow: c.FaultHow}
	var w *ParquetWriter
	var err error
	pan := protect(func() {
		w, err = NewParquetWriter(snk, MaxPageSize(c.Page), codecOpt[c.Codec])
	})
	ev := func(e event) {
		if !quiet {
			emit(e)
		}
	}
	hit := func(before int) bool { return faultAt > 0 && before < faultAt && snk.nCalls >= faultAt }
	ev(event{"ev": "New", "res": resOf(err, pan), "err": errStr(err), "panic": pan, "nsink": snk.nCalls, "hit": hit(0),
		"magic": bytes.Equal(snk.buf, pq.Magic), "len": len(snk.buf)})
	if quiet && faultAt > 0 {
		emit(event{"ev": "SinkCall", "call": "New", "res": resOf(err, pan), "hit": hit(0), "k": faultAt})
	}
	if err != nil || pan != "" || w == nil {
		return snk, false
	}
	pending := 0
	closed := false
	for _, o := range c.Ops {
		before := snk.nCalls
		start := len(snk.buf)
		switch o.Op {
		case "add":
			var rec Rec
			ctx.fill(reflect.ValueOf(&rec).Elem(), o.Rec)
			canon := ctx.abstract(reflect.ValueOf(&rec).Elem())
			pan := protect(func() { w.Add(rec) })
			if c.Mutate {
				scribble(reflect.ValueOf(&rec).Elem())
			}
			pending++
			ev(event{"ev": "Add", "rec": canon, "res": resOf(nil, pan), "panic": pan})
			if pan != "" {
				return snk, false
			}
		case "write":
			var err error
			pan := protect(func() { err = w.Write() })
			e := event{"ev": "Write", "res": resOf(err, pan), "err": errStr(err), "panic": pan, "nsink": snk.nCalls - before,
				"hit": hit(before), "start": start, "end": len(snk.buf), "nrec": pending}
			if err == nil && pan == "" && !snk.faulted {
				pages, probs, orphan := projectWrite(snk.buf, start, len(snk.buf), pending, cols, codecNum[c.Codec], c.Poff, c.Light)
				e["pages"], e["problems"], e["orphan"] = pages, probs, orphan
			} else {
				e["pages"], e["problems"], e["orphan"] = []event{}, []string{}, 0
			}
			ev(e)
			if quiet && faultAt > 0 {
				emit(event{"ev": "SinkCall", "call": "Write", "res": resOf(err, pan), "hit": hit(before), "k": faultAt})
			}
			pending = 0
			if err != nil || pan != "" {
				return snk, false
			}
		case "close":
			var err error
			pan := protect(func() { err = w.Close() })
			e := event{"ev": "Close", "res": resOf(err, pan), "err": errStr(err), "panic": pan, "nsink": snk.nCalls - before,
				"hit": hit(before), "start": start, "end": len(snk.buf), "pending": pending}
			if err == nil && pan == "" && !snk.faulted {
				e["footer"] = projectFooter(snk.buf, c.Poff)
				e["tailmagic"] = len(snk.buf) >= 4 && bytes.Equal(snk.buf[len(snk.buf)-4:], pq.Magic)
			}
			ev(e)
			if quiet && faultAt > 0 {
				emit(event{"ev": "SinkCall", "call": "Close", "res": resOf(err, pan), "hit": hit(before), "k": faultAt})
			}
			if err != nil || pan != "" {
				return snk, false
			}
			closed = true
		}
	}
	return snk, closed && !snk.faulted
}

// readResult is what one reader run delivered.
type readResult struct {
	openRes  string
	openErr  string
	rowsRep  int64
	nexts    int
	rows     []interface{}
	finalErr string
	hasErr   bool
	pan      string
	stable   bool
	exclZero bool
	srcCalls int
	srcReads int
	faulted  bool
	callKind string
}

func runReader(file []byte, src *source, poff int, limit int, stableCheck bool) readResult {
	ctx := buildCtx{poff: poff}
	res := readResult{stable: true, exclZero: true, rows: []interface{}{}}
	var r *ParquetReader
	var err error
	res.pan = guarded(func() { r, err = NewParquetReader(src) })
	if aborted != "" {
		res.openRes = "panic"
		return res
	}
	res.openRes, res.openErr = resOf(err, res.pan), errStr(err)
	if err != nil || res.pan != "" || r == nil {
		res.srcCalls, res.srcReads, res.faulted = src.nCalls, src.nReads, src.faulted
		res.hasErr = err != nil
		return res
	}
	var kept []*Rec
	var keptAbs []interface{}
	pan := guarded(func() {
		res.rowsRep = r.Rows()
		for r.Next() {
			res.nexts++
			rec := new(Rec)
			r.Scan(rec)
			a := ctx.abstract(reflect.ValueOf(rec).Elem())
			res.rows = append(res.rows, a)
			if !excludedZero(reflect.ValueOf(rec).Elem()) {
				res.exclZero = false
			}
			if stableCheck {
				kept = append(kept, rec)
				keptAbs = append(keptAbs, a)
				for i, k := range kept {
					if !reflect.DeepEqual(ctx.abstract(reflect.ValueOf(k).Elem()), keptAbs[i]) {
						res.stable = false
					}
				}
			}
			if res.nexts >= limit {
				break
			}
		}
		if e := r.Error(); e != nil {
			res.hasErr, res.finalErr = true, errStr(e)
		}
	})
	if pan != "" {
		res.pan = pan
	}
	if aborted != "" {
		// the abandoned goroutine may still be writing into res: report a fresh, minimal result
		return readResult{openRes: "ok", pan: aborted, rows: []interface{}{}, stable: true, exclZero: true}
	}
	res.srcCalls, res.srcReads, res.faulted = src.nCalls, src.nReads, src.faulted
	return res
}

// rowsTab registers the distinct row lists of the current case: a Read event
// refers to its rows by id, the list itself is logged once (event Rows).
var rowsTab map[string]int

func rowsID(rows []interface{}) int {
	b, _ := json.Marshal(rows)
	k := string(b)
	if id, ok := rowsTab[k]; ok {
		return id
	}
	id := len(rowsTab) + 1
	rowsTab[k] = id
	emit(event{"ev": "Rows", "id": id, "rows": rows})
	return id
}

func (r readResult) event(mode string, extra event) event {
	e := event{"ev": "Read", "mode": mode, "open": r.openRes, "openerr": r.openErr, "rowsrep": r.rowsRep, "nexts": r.nexts,
		"rowsid": rowsID(r.rows), "nrows": len(r.rows), "haserr": r.hasErr, "finalerr": r.finalErr, "panic": r.pan, "stable": r.stable, "exclzero": r.exclZero,
		"srccalls": r.srcCalls, "faulted": r.faulted}
	for k, v := range extra {
		e[k] = v
	}
	return e
}

type lcg struct{ s uint64 }

func (l *lcg) next() uint64 {
	l.s = l.s*6364136223846793005 + 1442695040888963407
	return l.s >> 33
}

func runReads(c jobCase, file []byte, expectRows int) {
	limit := expectRows*2 + 50
	var plain readResult
	havePlain := false
	getPlain := func() readResult {
		if !havePlain {
			plain = runReader(file, &source{data: file}, c.Poff, limit, false)
			havePlain = true
		}
		return plain
	}
	for _, rs := range c.Reads {
		switch rs.Mode {
		case "plain":
			res := runReader(file, &source{data: file}, c.Poff, limit, false)
			emit(res.event("plain", nil))
		case "scanstable":
			res := runReader(file, &source{data: file}, c.Poff, limit, true)
			emit(res.event("scanstable", nil))
		case "chunk":
			res := runReader(file, &source{data: file, chunk: rs.Chunk, eofData: rs.EOFData}, c.Poff, limit, false)
			emit(res.event("chunk", event{"chunk": rs.Chunk, "eofdata": rs.EOFData}))
		case "eofdata":
			res := runReader(file, &source{data: file, eofData: true}, c.Poff, limit, false)
			emit(res.event("eofdata", nil))
		case "rand":
			l := &lcg{s: uint64(rs.Seed)}
			res := runReader(file, &source{data: file, randShort: func() int { return 1 + int(l.next()%9) }}, c.Poff, limit, false)
			emit(res.event("rand", event{"seed": rs.Seed}))
		case "shortat":
			ks := []int{rs.At}
			if rs.AllAt {
				ks = nil
				for k := 1; k <= getPlain().srcReads; k++ {
					ks = append(ks, k)
				}
			}
			for _, k := range ks {
				res := runReader(file, &source{data: file, shortAt: k, shortHow: rs.How}, c.Poff, limit, false)
				emit(res.event("shortat", event{"at": k, "how": rs.How}))
			}
		case "fault":
			ks := []int{rs.At}
			if rs.AllAt {
				ks = nil
				for k := 1; k <= getPlain().srcCalls; k++ {
					ks = append(ks, k)
				}
			}
			for _, k := range ks {
				res := runReader(file, &source{data: file, faultAt: k, faultKind: rs.Kind, sticky: rs.Sticky}, c.Poff, limit, false)
				emit(res.event("fault", event{"at": k, "kind": rs.Kind, "sticky": rs.Sticky}))
			}
		case "trunc":
			ls := []int{rs.Len}
			if rs.AllTrunc {
				ls = nil
				for l := 0; l < len(file); l++ {
					ls = append(ls, l)
				}
			}
			for _, l := range ls {
				res := runReader(file[:l], &source{data: file[:l]}, c.Poff, limit, false)
				emit(res.event("trunc", event{"len": l, "full": len(file)}))
			}
		}
	}
}

func countAdds(c jobCase) (written int) {
	pending := 0
	for _, o := range c.Ops {
		switch o.Op {
		case "add":
			pending++
		case "write":
			written += pending
			pending = 0
		}
	}
	return
}

// bulkSpec: n records generated from their index (record i: leaf k holds token (i*7+k*3) mod 16, an optional is nil
// when (i+k) mod 3 == 0, a list has (i+k) mod 4 elements), written in the given batches, read back and compared here.
type bulkSpec struct {
	N       int   `json:"n"`
	Batches []int `json:"batches"`
	// Trunc: afterwards every strict prefix of the (large) file is handed to the reader; the outcome is summarised in one event
	Trunc bool `json:"trunc,omitempty"`
	// Tail: instead of one workload, up to Tail small files are written in search of files whose last bytes, read as a footer
	// length after the trailing bytes were cut off, lead back to the start of the footer (see tailSearch)
	Tail int `json:"tail,omitempty"`
}

// tailSearch: the cuts inside the trailing length/magic.  A reader that trusts whatever it finds eight bytes before the end
// accepts the prefix that lost its last j bytes when the four bytes at [len-j-8, len-j-4), read as a footer length, lead to the
// start of the real footer again: LE32(file[len-j-8:len-j-4]) == N - j (N the footer length, j <= 8: the footer itself is still
// complete).  Whether a file is like that depends on the footer the writer under test emits, so such files are searched for
// (number of row groups, rows of the last row group and the size of the records varied); for every file found each of the last 12
// prefixes is handed to the reader.  One TruncSweep event per file found (and one with n = 0 when none was).
func tailSearch(c jobCase) {
	ctx := buildCtx{poff: c.Poff}
	gen := func(i int) *Rec {
		rec := new(Rec)
		ctx.fill(reflect.ValueOf(rec).Elem(), bulkAbstract(schemaRoot, i, 0))
		return rec
	}
	searched, found := 0, 0
	start := time.Now()
	// k row groups: the first of 3+3*salt records (it moves every later chunk, and with that the sizes of the offsets in the footer),
	// the last of r records, 3 records in the others
	write := func(k, r, salt int) []byte {
		snk := &sink{}
		w, err := NewParquetWriter(snk, MaxPageSize(c.Page), codecOpt[c.Codec])
		if err != nil {
			return nil
		}
		i := salt
		for g := 0; g < k; g++ {
			n := 3
			if g == 0 && k > 1 {
				n = 3 + 3*salt
			}
			if g == k-1 {
				n = r
			}
			for x := 0; x < n; x++ {
				w.Add(*gen(i))
				i++
			}
			if w.Write() != nil {
				return nil
			}
		}
		if w.Close() != nil {
			return nil
		}
		return snk.buf
	}
	// tail(file): footer length, the value a reader of the file without its last 4 bytes would take for it, and the cut (if any)
	// that leads back to the start of the footer
	tail := func(file []byte) (N, v, hit int) {
		n := len(file)
		N = int(binary.LittleEndian.Uint32(file[n-8:]))
		v = int(binary.LittleEndian.Uint32(file[n-12:]))
		for j := 1; j <= 8 && n-j-8 >= 0; j++ {
			if int(binary.LittleEndian.Uint32(file[n-j-8:])) == N-j {
				hit = j
			}
		}
		return
	}
	judge := func(file []byte, k, r, salt, hit, N int) {
		n := len(file)
		res := event{"ev": "TruncSweep", "n": 12, "tail": true, "hit": hit, "rowgroups": k, "lastrows": r, "salt": salt, "size": n, "footer": N,
			"naccepted": 0, "npanicked": 0, "accepted": []int{}, "panicked": []int{}, "detail": ""}
		acc, pan := []int{}, []int{}
		for l := n - 12; l < n; l++ {
			p, accepted := tryPrefix(file, l)
			if aborted != "" {
				res["npanicked"] = res["npanicked"].(int) + 1
				res["panicked"], res["accepted"], res["detail"] = append(pan, l), acc, aborted
				emit(res)
				out.WriteString(`{"ev":"Aborted","detail":"driver stopped after a runaway call"}` + "\n")
				out.Flush()
				os.Exit(0)
			}
			if p != "" {
				pan = append(pan, l)
				if res["detail"] == "" {
					if len(p) > 300 {
						p = p[:300]
					}
					res["detail"] = p
				}
				res["npanicked"] = res["npanicked"].(int) + 1
			} else if accepted {
				acc = append(acc, l)
				res["naccepted"] = res["naccepted"].(int) + 1
			}
		}
		res["accepted"], res["panicked"] = acc, pan
		emit(res)
	}
	try := func(k, r, salt int) (N, v int, ok bool) {
		var file []byte
		if p := guardedFor(20*time.Second, func() { file = write(k, r, salt) }); p != "" || file == nil || len(file) < 24 {
			return 0, 0, false
		}
		searched++
		N, v, hit := tail(file)
		if hit != 0 {
			found++
			judge(file, k, r, salt, hit, N)
		}
		return N, v, true
	}
search:
	for k := 1; k <= 48; k++ {
		for salt := 0; salt < 40; salt++ {
			if found >= 3 || searched >= c.Bulk.Tail || time.Since(start) > 90*time.Second {
				break search
			}
			// the tail value usually grows linearly with the rows of the last row group: aim at the r for which it meets the footer length
			N1, v1, ok1 := try(k, 1, salt)
			_, v2, ok2 := try(k, 2, salt)
			if ok1 && ok2 && v2 > v1 {
				r := 1 + (N1-4-v1)/(v2-v1)
				for _, rr := range []int{r - 1, r, r + 1} {
					if rr >= 3 && rr <= 4000 {
						try(k, rr, salt)
					}
				}
			}
			try(k, 3+(k*7+salt*3)%60, salt) // and an undirected sample
		}
	}
	emit(event{"ev": "TailSearch", "searched": searched, "found": found})
}

// tryPrefix hands file[:l] to the reader: the panic (if any), and whether the prefix was accepted (no constructor error, Error() nil
// after Next returned false)
func tryPrefix(file []byte, l int) (string, bool) {
	var r *ParquetReader
	var err error
	p := guardedFor(20*time.Second, func() {
		r, err = NewParquetReader(&source{data: file[:l]})
		if err != nil {
			return
		}
		n := 0
		for r.Next() {
			rec := new(Rec)
			r.Scan(rec)
			if n++; n > 1<<22 {
				break
			}
		}
		err = r.Error()
	})
	return p, p == "" && err == nil
}

// truncSweep: every strict prefix of file must be rejected (constructor error or Error() != nil), without panic.
func truncSweep(file []byte, poff int) {
	res := event{"ev": "TruncSweep", "n": len(file), "naccepted": 0, "npanicked": 0, "accepted": []int{}, "panicked": []int{}, "detail": ""}
	acc, pan := []int{}, []int{}
	for l := 0; l < len(file); l++ {
		var r *ParquetReader
		var err error
		p := guardedFor(20*time.Second, func() {
			r, err = NewParquetReader(&source{data: file[:l]})
			if err != nil {
				return
			}
			n := 0
			for r.Next() {
				rec := new(Rec)
				r.Scan(rec)
				if n++; n > 1<<22 {
					break
				}
			}
			err = r.Error()
		})
		if aborted != "" { // a runaway reader: report it as the result of this prefix and stop (the goroutine cannot be stopped)
			res["npanicked"] = res["npanicked"].(int) + 1
			res["panicked"], res["accepted"], res["detail"] = append(pan, l), acc, aborted
			emit(res)
			out.WriteString(`{"ev":"Aborted","detail":"driver stopped after a runaway call"}` + "\n")
			out.Flush()
			os.Exit(0)
		}
		switch {
		case p != "":
			if len(pan) < 8 {
				pan = append(pan, l)
			}
			if res["detail"] == "" {
				if len(p) > 300 {
					p = p[:300]
				}
				res["detail"] = p
			}
			res["npanicked"] = res["npanicked"].(int) + 1
		case err == nil:
			if len(acc) < 8 {
				acc = append(acc, l)
			}
			res["naccepted"] = res["naccepted"].(int) + 1
		}
	}
	res["accepted"], res["panicked"] = acc, pan
	emit(res)
}

func bulkAbstract(kids []node, i int, salt int) []interface{} {
	var out []interface{}
	for idx, n := range kids {
		n := n
		my := salt*5 + idx + 1
		one := func(j int) interface{} {
			if n.Typ == "group" {
				return bulkAbstract(n.Kids, i+j, my)
			}
			if n.Typ == "string" && i%89 == 7 {
				return 996 - (i/89)%3 // a value that reads as the last eight bytes of a file (see tailLike)
			}
			return (i*7 + my*3 + j*5) % 16
		}
		switch n.Rep {
		case "req":
			out = append(out, one(0))
		case "opt":
			if (i+my)%3 == 0 {
				out = append(out, []interface{}{})
			} else {
				out = append(out, []interface{}{one(0)})
			}
		default:
			l := []interface{}{}
			for j := 0; j < (i+my)%4; j++ {
				l = append(l, one(j))
			}
			out = append(out, l)
		}
	}
	return out
}

func runBulk(c jobCase) {
	if c.Bulk.Tail > 0 {
		tailSearch(c)
		return
	}
	ctx := buildCtx{poff: c.Poff}
	snk := &sink{}
	var w *ParquetWriter
	var err error
	res := event{"ev": "Bulk", "n": c.Bulk.N, "batches": c.Bulk.Batches, "werr": "", "rerr": "", "nread": 0, "rowsrep": 0, "firstbad": -1, "pan": ""}
	gen := func(i int) *Rec {
		rec := new(Rec)
		ctx.fill(reflect.ValueOf(rec).Elem(), bulkAbstract(schemaRoot, i, 0))
		return rec
	}
	limit := time.Duration(90+c.Bulk.N/1000) * time.Second // the comparison of n records in the driver itself takes its time
	pan := guardedFor(limit, func() {
		w, err = NewParquetWriter(snk, MaxPageSize(c.Page), codecOpt[c.Codec])
		if err != nil {
			return
		}
		i := 0
		for _, b := range c.Bulk.Batches {
			for j := 0; j < b; j++ {
				w.Add(*gen(i))
				i++
			}
			if err = w.Write(); err != nil {
				return
			}
		}
		err = w.Close()
	})
	if pan != "" || err != nil {
		res["werr"], res["pan"] = errStr(err), pan
		emit(res)
		return
	}
	res["size"] = len(snk.buf)
	var r *ParquetReader
	pan = guardedFor(limit, func() {
		r, err = NewParquetReader(&source{data: snk.buf})
		if err != nil {
			return
		}
		res["rowsrep"] = r.Rows()
		n := 0
		for r.Next() {
			rec := new(Rec)
			r.Scan(rec)
			if n < c.Bulk.N && res["firstbad"].(int) < 0 {
				want := ctx.abstract(reflect.ValueOf(gen(n)).Elem())
				if !reflect.DeepEqual(ctx.abstract(reflect.ValueOf(rec).Elem()), want) {
					res["firstbad"] = n
				}
			}
			n++
			if n > c.Bulk.N+10 {
				break
			}
		}
		res["nread"] = n
		err = r.Error()
	})
	res["rerr"], res["pan"] = errStr(err), pan
	emit(res)
	if c.Bulk.Trunc && aborted == "" {
		truncSweep(snk.buf, c.Poff)
	}
}

func runCase(c jobCase) {
	if c.Page == 0 {
		c.Page = 1000
	}
	if c.Codec == "" {
		c.Codec = "snappy"
	}
	rowsTab = map[string]int{}
	emit(event{"ev": "Reset", "case": c.ID, "schema": schemaRoot, "cols": cols, "max": c.Page, "codec": c.Codec, "codecn": codecNum[c.Codec], "poff": c.Poff})
	if c.Foreign != nil {
		runForeign(c)
		return
	}
	if c.Bulk != nil {
		runBulk(c)
		return
	}
	if c.Sched != nil {
		runSched(c)
		return
	}
	if c.ReadFile != "" {
		file, err := os.ReadFile(c.ReadFile)
		if err != nil {
			emit(event{"ev": "HarnessError", "detail": err.Error()})
			return
		}
		ctx := buildCtx{poff: c.Poff}
		rows := toList(c.Expect)
		canon := make([]interface{}, len(rows))
		// the rows are shaped like the struct that wrote the file; if this program's Rec has another shape they do not fit
		shapeErr := protect(func() {
			for i, r := range rows {
				var rec Rec
				ctx.fill(reflect.ValueOf(&rec).Elem(), r)
				canon[i] = ctx.abstract(reflect.ValueOf(&rec).Elem())
			}
		})
		if shapeErr != "" {
			if len(shapeErr) > 200 {
				shapeErr = shapeErr[:200]
			}
			emit(event{"ev": "Expect", "rows": rows, "shapeerr": shapeErr})
		} else {
			emit(event{"ev": "Expect", "rows": canon, "shapeerr": ""})
		}
		res := runReader(file, &source{data: file}, c.Poff, len(rows)*2+50, false)
		emit(res.event("regen", nil))
		return
	}
	if c.SinkFault != 0 {
		// fault-free run first (quiet) to learn the number of sink calls
		base, _ := runWriter(c, 0, true)
		ks := []int{c.SinkFault}
		if c.SinkFault < 0 {
			ks = nil
			for k := 1; k <= base.nCalls; k++ {
				ks = append(ks, k)
			}
		}
		emit(event{"ev": "SinkBase", "ncalls": base.nCalls})
		for _, k := range ks {
			emit(event{"ev": "SinkRun", "k": k, "how": c.FaultHow})
			runWriter(c, k, true)
		}
		return
	}
	snk, ok := runWriter(c, 0, false)
	if c.KeepFile != "" {
		os.WriteFile(c.KeepFile, snk.buf, 0o644)
	}
	if !ok {
		return
	}
	if c.Intro {
		runIntro(snk.buf, false)
	}
	runReads(c, snk.buf, countAdds(c))
}

func main() {
	if len(os.Args) < 3 {
		fmt.Fprintln(os.Stderr, "usage: driver <job.json> <events.ndjson>")
		os.Exit(2)
	}
	raw, err := os.ReadFile(os.Args[1])
	if err != nil {
		fmt.Fprintln(os.Stderr, err)
		os.Exit(2)
	}
	var j job
	if err := json.Unmarshal(raw, &j); err != nil {
		fmt.Fprintln(os.Stderr, "job:", err)
		os.Exit(2)
	}
	f, err := os.Create(os.Args[2])
	if err != nil {
		fmt.Fprintln(os.Stderr, err)
		os.Exit(2)
	}
	out = bufio.NewWriterSize(f, 1<<20)
	schemaRoot = kidsOf(reflect.TypeOf(Rec{}))
	columnsOf(schemaRoot, nil, nil, &cols)
	if os.Getenv("VERIF_GOMAXPROCS") == "1" {
		runtime.GOMAXPROCS(1)
	}
	for _, c := range j.Cases {
		pan := protect(func() { runCase(c) })
		if pan != "" {
			emit(event{"ev": "DriverPanic", "case": c.ID, "panic": pan})
		}
		out.Flush()
	}
	out.Flush()
	f.Close()
}
