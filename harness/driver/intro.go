package main

import (
	"bytes"
	"encoding/hex"
	"fmt"
	"strings"

	"github.com/parsyl/parquet"
	sch "github.com/parsyl/parquet/schema"
	"verifharness/pq"
)

// ---- introspection calls (C16): ReadMetaData, PageHeaders, PageHeadersAtOffset
// versus the independent footer decode and page walk.  Both sides are projected
// to the same JSON shape; TLC compares them.

func hdrObsLib(h sch.PageHeader) event {
	e := event{"type": int(h.Type), "ulen": int(h.UncompressedPageSize), "clen": int(h.CompressedPageSize),
		"nvals": -1, "enc": -1, "denc": -1, "renc": -1, "hasstats": false, "nullcount": -1, "min": "", "max": "", "hasmin": false, "hasmax": false,
		"hascrc": h.Crc != nil, "crc": int64(0)}
	if h.Crc != nil {
		e["crc"] = int64(*h.Crc)
	}
	if d := h.DataPageHeader; d != nil {
		e["nvals"], e["enc"], e["denc"], e["renc"] = int(d.NumValues), int(d.Encoding), int(d.DefinitionLevelEncoding), int(d.RepetitionLevelEncoding)
		if s := d.Statistics; s != nil {
			e["hasstats"] = true
			if s.NullCount != nil {
				e["nullcount"] = *s.NullCount
			}
			if s.MinValue != nil {
				e["hasmin"], e["min"] = true, hex.EncodeToString(s.MinValue)
			}
			if s.MaxValue != nil {
				e["hasmax"], e["max"] = true, hex.EncodeToString(s.MaxValue)
			}
		}
	}
	return e
}

func hdrObsInd(h *pq.PageHdr) event {
	e := event{"type": h.Type, "ulen": h.Uncomp, "clen": h.Comp, "nvals": -1, "enc": -1, "denc": -1, "renc": -1,
		"hasstats": false, "nullcount": -1, "min": "", "max": "", "hasmin": false, "hasmax": false, "hascrc": false, "crc": int64(0)}
	if v, ok := h.Raw.Int(4); ok {
		e["hascrc"], e["crc"] = true, v
	}
	if h.HasData {
		e["nvals"], e["enc"], e["denc"], e["renc"] = h.NumValues, h.Enc, h.DefEnc, h.RepEnc
		if s := h.Stats; s != nil {
			e["hasstats"] = true
			if s.HasNull {
				e["nullcount"] = s.NullCount
			}
			if s.HasMin {
				e["hasmin"], e["min"] = true, hex.EncodeToString(s.Min)
			}
			if s.HasMax {
				e["hasmax"], e["max"] = true, hex.EncodeToString(s.Max)
			}
		}
	}
	return e
}

func hdrsLib(hs []sch.PageHeader) []event {
	out := []event{}
	for _, h := range hs {
		out = append(out, hdrObsLib(h))
	}
	return out
}

func metaObsLib(m *sch.FileMetaData) event {
	schema := []event{}
	for _, s := range m.Schema {
		e := event{"name": s.Name, "type": -1, "ctype": -1, "rep": -1, "nch": -1}
		if s.Type != nil {
			e["type"] = int(*s.Type)
		}
		if s.ConvertedType != nil {
			e["ctype"] = int(*s.ConvertedType)
		}
		if s.RepetitionType != nil {
			e["rep"] = int(*s.RepetitionType)
		}
		if s.NumChildren != nil {
			e["nch"] = int(*s.NumChildren)
		}
		schema = append(schema, e)
	}
	rgs := []event{}
	for _, rg := range m.RowGroups {
		cols := []event{}
		for _, c := range rg.Columns {
			ce := event{"fo": c.FileOffset, "path": "", "type": -1, "codec": -1, "nvals": int64(-1), "tu": int64(-1), "tc": int64(-1), "dpo": int64(-1)}
			if md := c.MetaData; md != nil {
				ce["path"], ce["type"], ce["codec"] = strings.Join(md.PathInSchema, "."), int(md.Type), int(md.Codec)
				ce["nvals"], ce["tu"], ce["tc"], ce["dpo"] = md.NumValues, md.TotalUncompressedSize, md.TotalCompressedSize, md.DataPageOffset
			}
			cols = append(cols, ce)
		}
		rgs = append(rgs, event{"numrows": rg.NumRows, "tbs": rg.TotalByteSize, "cols": cols})
	}
	return event{"version": int64(m.Version), "numrows": m.NumRows, "schema": schema, "rgs": rgs}
}

func metaObsInd(f *pq.Footer) event {
	rgs := []event{}
	for _, rg := range f.RowGroups {
		cols := []event{}
		for _, c := range rg.Columns {
			cols = append(cols, event{"fo": c.FileOffset, "path": strings.Join(c.Path, "."), "type": c.Type, "codec": c.Codec,
				"nvals": c.NumValues, "tu": c.TotalUncomp, "tc": c.TotalComp, "dpo": c.DataPageOffset})
		}
		rgs = append(rgs, event{"numrows": rg.NumRows, "tbs": rg.TotalByteSize, "cols": cols})
	}
	return event{"version": f.Version, "numrows": f.NumRows, "schema": schemaObs(f.Schema), "rgs": rgs}
}

func runIntro(file []byte, foreign bool) {
	e := event{"ev": "Intro", "panic": "", "metaerr": "", "hdrerr": ""}
	ind, err := pq.ParseFooter(file)
	if err != nil {
		emit(event{"ev": "HarnessError", "detail": "intro: independent footer decode failed: " + err.Error()})
		return
	}
	// the independent walk: chunk by chunk in the order of the footer, each from its data_page_offset over its
	// total_compressed_size bytes (for files of this library that is one sequential walk from byte 4; a foreign file may
	// store the chunks in another order or put other structures between the last chunk and the footer)
	var raw []pq.RawPage
	for _, rg := range ind.RowGroups {
		for _, ch := range rg.Columns {
			part, werr := pq.WalkRaw(file, int(ch.DataPageOffset), int(ch.DataPageOffset+ch.TotalComp))
			if werr != nil {
				emit(event{"ev": "HarnessError", "detail": "intro: independent page walk failed: " + werr.Error()})
				return
			}
			// PageHeadersAtOffset(r, offset, n) - and PageHeaders through it - lists the pages from offset until n values are
			// covered: value-less pages behind the last value of a chunk are not part of the answer
			var cum int64
			for k, rp := range part {
				cum += int64(rp.Hdr.NumValues)
				if cum >= ch.NumValues {
					part = part[:k+1]
					break
				}
			}
			raw = append(raw, part...)
		}
	}
	ipages := []event{}
	ioffs := []int{}
	for _, r := range raw {
		ipages = append(ipages, hdrObsInd(r.Hdr))
		ioffs = append(ioffs, r.Off)
	}
	e["imeta"], e["ipages"], e["ioffs"] = metaObsInd(ind), ipages, ioffs
	e["foreign"] = foreign
	pan := protect(func() {
		m, err := parquet.ReadMetaData(bytes.NewReader(file))
		if err != nil {
			e["metaerr"] = err.Error()
			e["meta"] = event{}
			return
		}
		e["meta"] = metaObsLib(m)
		hs, err := parquet.PageHeaders(m, bytes.NewReader(file))
		if err != nil {
			e["hdrerr"] = err.Error()
		}
		e["hdrs"] = hdrsLib(hs)
		// from every chunk offset with its value count, and from every page offset with the remaining count
		atchunk, atpage := []event{}, []event{}
		for _, rg := range ind.RowGroups {
			for _, ch := range rg.Columns {
				hs, err := parquet.PageHeadersAtOffset(bytes.NewReader(file), ch.DataPageOffset, ch.NumValues)
				atchunk = append(atchunk, event{"off": ch.DataPageOffset, "n": ch.NumValues, "err": errStr(err), "hdrs": hdrsLib(hs)})
				// pages of this chunk by the independent walk
				remaining := ch.NumValues
				for i, r := range raw {
					if int64(r.Off) < ch.DataPageOffset || int64(r.Off) >= ch.DataPageOffset+ch.TotalComp {
						continue
					}
					if remaining > 0 {
						hs, err := parquet.PageHeadersAtOffset(bytes.NewReader(file), int64(r.Off), remaining)
						// expected: the pages from i up to the end of the chunk
						want := []event{}
						for j := i; j < len(raw) && int64(raw[j].Off) >= ch.DataPageOffset && int64(raw[j].Off) < ch.DataPageOffset+ch.TotalComp; j++ {
							want = append(want, hdrObsInd(raw[j].Hdr))
						}
						atpage = append(atpage, event{"off": r.Off, "n": remaining, "err": errStr(err), "hdrs": hdrsLib(hs), "want": want})
					}
					remaining -= int64(r.Hdr.NumValues)
				}
			}
		}
		// from every page offset with n = 0: the one header at that offset
		for _, r := range raw {
			hs, err := parquet.PageHeadersAtOffset(bytes.NewReader(file), int64(r.Off), 0)
			atpage = append(atpage, event{"off": r.Off, "n": 0, "err": errStr(err), "hdrs": hdrsLib(hs), "want": []event{hdrObsInd(r.Hdr)}})
		}
		// from every chunk offset with the value count of its first k pages: exactly k headers
		atpartial := []event{}
		for _, rg := range ind.RowGroups {
			for _, ch := range rg.Columns {
				var cum int64
				want := []event{}
				for _, r := range raw {
					if int64(r.Off) < ch.DataPageOffset || int64(r.Off) >= ch.DataPageOffset+ch.TotalComp {
						continue
					}
					cum += int64(r.Hdr.NumValues)
					want = append(want, hdrObsInd(r.Hdr))
					if r.Hdr.NumValues == 0 || cum >= ch.NumValues {
						continue // the full count is covered by atchunk; empty pages make the expectation ambiguous
					}
					hs, err := parquet.PageHeadersAtOffset(bytes.NewReader(file), ch.DataPageOffset, cum)
					atpartial = append(atpartial, event{"off": ch.DataPageOffset, "n": cum, "err": errStr(err), "hdrs": hdrsLib(hs), "want": append([]event{}, want...)})
				}
			}
		}
		e["atchunk"], e["atpage"], e["atpartial"] = atchunk, atpage, atpartial
		// the same calls again on ONE reader that is left wherever the previous call left it (and first moved to an odd
		// position): the answers may not depend on the reader's position or on earlier calls, and PageHeaders may not
		// modify the FileMetaData it was given
		rd := bytes.NewReader(file)
		rd.Seek(int64(len(file)/3), 0)
		seq := event{"err": ""}
		m1, err := parquet.ReadMetaData(rd)
		if err == nil {
			h1, err1 := parquet.PageHeaders(m1, rd)
			seq["metaafter"] = metaObsLib(m1)
			m2, err2 := parquet.ReadMetaData(rd)
			if err1 != nil || err2 != nil {
				seq["err"] = errStr(err1) + errStr(err2)
			} else {
				h2, err3 := parquet.PageHeaders(m2, rd)
				h3, err4 := parquet.PageHeaders(m1, rd)
				seq["err"] = errStr(err3) + errStr(err4)
				seq["meta2"], seq["hdrs1"], seq["hdrs2"], seq["hdrs3"] = metaObsLib(m2), hdrsLib(h1), hdrsLib(h2), hdrsLib(h3)
				// the first list must still read the same after the later calls (no aliasing of reused buffers)
				seq["hdrs1again"] = hdrsLib(h1)
			}
		} else {
			seq["err"] = err.Error()
		}
		e["seq"] = seq
	})
	e["panic"] = pan
	for _, k := range []string{"meta", "hdrs", "atchunk", "atpage", "atpartial"} {
		if _, ok := e[k]; !ok {
			e[k] = []event{}
		}
	}
	if pan != "" {
		e["meta"] = event{}
	}
	emit(e)
	_ = fmt.Sprint
}
