package main

import (
	"os"
	"reflect"
)

func reflectElem(r *Rec) reflect.Value { return reflect.ValueOf(r).Elem() }

func writeFile(p string, b []byte) { os.WriteFile(p, b, 0o644) }
