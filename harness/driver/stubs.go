package main

func runForeign(c jobCase) {}
func runIntro(file []byte)  {}
