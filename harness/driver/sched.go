package main

import (
	"bytes"
	"crypto/sha1"
	"encoding/hex"
	"encoding/json"
	"fmt"
	"io"
	"os"
	"reflect"
	"runtime"
	"runtime/debug"
	"sync"
	"time"

	"github.com/parsyl/parquet"
	sch "github.com/parsyl/parquet/schema"
)

// ---- independent instances under a prescribed schedule (C13).
// Every instance runs on its own goroutine; its sink (writers) or source
// (readers) is a blocking gate that releases one call at a time in the order
// the schedule prescribes.  With GOMAXPROCS(1) exactly one instance runs
// between two gate events, so the interleaving is the schedule's.

type instSpec struct {
	Kind  string `json:"kind"` // w | r
	Page  int    `json:"page"`
	Codec string `json:"codec"`
	Poff  int    `json:"poff"`
	Ops   []op   `json:"ops"`
	// FailAt > 0: a writer whose destination fails from its FailAt-th Write call on (error paths of one instance must not
	// leave shared state behind that changes what other instances write)
	FailAt int `json:"failat,omitempty"`
	// SharedOpts: the writer is built from an options slice that has spare capacity and is SHARED by all instances of the
	// case that set this flag (a caller configuring several writers from one slice: NewParquetWriter(w, opts...))
	SharedOpts bool `json:"sharedopts,omitempty"`
}

// the options slice shared by the instances of the current schedule (nil: every instance passes its options explicitly)
var sharedOpts []func(*ParquetWriter) error

type schedSpec struct {
	Insts    []instSpec `json:"insts"`
	Schedule [][]int    `json:"schedule"` // segments [instance (1-based), n calls]
	Prior    string     `json:"prior"`    // clean | dirty
	Stress   int        `json:"stress"`   // >0: free-running parallel stress with that many goroutines per instance
	// Baseline: per instance, the digests of its solo run in a SEPARATE fresh process (sink calls, or rows for a reader).
	// Without it the solo run of this process is the reference.
	Baseline [][]string `json:"baseline"`
	// Unstable: instances whose solo run came out differently when repeated after the other solo runs (reference process)
	Unstable []int `json:"unstable"`
	// Repeat: the reference process runs the solo runs of this case a second time (in the opposite order)
	Repeat bool `json:"repeat"`
}

type instResult struct {
	calls [][]byte      // writer: bytes of every sink call
	rows  []interface{} // reader: rows delivered
	err   string
	pan   string
}

// runInst executes one instance.  g == nil: free running.
func runInst(is instSpec, file []byte, inst int, g *gate) (res instResult) {
	defer func() {
		if r := recover(); r != nil {
			res.pan = fmt.Sprintf("%v", r)
		}
	}()
	ctx := buildCtx{poff: is.Poff}
	if is.Kind == "r" {
		src := &source{data: file, inst: inst, g: g}
		if is.FailAt > 0 { // a reader whose source fails once, at its FailAt-th call (error paths must not leave shared state behind)
			src.faultAt, src.faultKind = is.FailAt, "half"
		} else if is.FailAt < 0 { // ... or at its (-FailAt)-th read of more than 8 bytes, i.e. inside a page body
			src.faultBigAt, src.faultKind = -is.FailAt, "half"
		}
		r, err := NewParquetReader(src)
		if err != nil {
			res.err = err.Error()
			return
		}
		for r.Next() {
			rec := new(Rec)
			r.Scan(rec)
			res.rows = append(res.rows, ctx.abstract(reflect.ValueOf(rec).Elem()))
			if len(res.rows) > 100000 {
				break
			}
		}
		if e := r.Error(); e != nil {
			res.err = e.Error()
		}
		return
	}
	snk := &callSink{inst: inst, g: g, failAt: is.FailAt}
	defer func() { res.calls = snk.calls }()
	var w *ParquetWriter
	var err error
	if is.SharedOpts {
		opts := sharedOpts
		if g == nil || opts == nil { // solo / baseline run: a private slice of the same shape
			opts = append(make([]func(*ParquetWriter) error, 0, 8), MaxPageSize(is.Page), codecOpt[is.Codec])
		}
		w, err = NewParquetWriter(snk, opts...)
	} else {
		w, err = NewParquetWriter(snk, MaxPageSize(is.Page), codecOpt[is.Codec])
	}
	if err != nil {
		res.err = err.Error()
		return
	}
	for _, o := range is.Ops {
		switch o.Op {
		case "add":
			var rec Rec
			ctx.fill(reflect.ValueOf(&rec).Elem(), o.Rec)
			w.Add(rec)
		case "write":
			if err := w.Write(); err != nil {
				res.err = err.Error()
				return
			}
		case "close":
			if err := w.Close(); err != nil {
				res.err = err.Error()
				return
			}
		}
	}
	res.calls = snk.calls
	return
}

// callSink records every Write call separately; the copy is taken only after
// the gate has released the call.
type callSink struct {
	calls  [][]byte
	inst   int
	g      *gate
	failAt int
	n      int
}

func (s *callSink) Write(p []byte) (int, error) {
	if s.g != nil {
		s.g.wait(s.inst)
	}
	s.n++
	if s.failAt > 0 && s.n >= s.failAt {
		return 0, errInjected
	}
	s.calls = append(s.calls, append([]byte{}, p...))
	return len(p), nil
}

func digest(b []byte) string {
	h := sha1.Sum(b)
	return hex.EncodeToString(h[:8])
}

// digests of an instance's observable output: one per sink call (writer), or rows + error (reader)
func digestsOf(is instSpec, r instResult) []string {
	if is.Kind == "r" {
		b, _ := json.Marshal(r.rows)
		return []string{digest(b), "err:" + r.err, "panic:" + r.pan}
	}
	out := make([]string, 0, len(r.calls)+2)
	for _, c := range r.calls {
		out = append(out, digest(c))
	}
	return append(out, "err:"+r.err, "panic:"+r.pan)
}

func fileOf(r instResult) []byte {
	var b []byte
	for _, c := range r.calls {
		b = append(b, c...)
	}
	return b
}

func poolSelfTest() bool {
	// under GOMAXPROCS(1) an object put by one goroutine is what the next Get on another goroutine returns
	var p sync.Pool
	type box struct{ x [64]byte }
	ok := true
	for i := 0; i < 200; i++ {
		b := &box{}
		done := make(chan *box)
		p.Put(b)
		go func() { done <- p.Get().(*box) }()
		if got := <-done; got != b {
			ok = false
		}
	}
	return ok
}

var foreignFirst bool

type priorStats struct{}

func (priorStats) NullCount() *int64     { return nil }
func (priorStats) DistinctCount() *int64 { return nil }
func (priorStats) Min() []byte           { return nil }
func (priorStats) Max() []byte           { return nil }

// otherSchemaPrior leaves behind, in the same process, writer state for a DIFFERENT table that has the same column
// paths as this program's Rec but other physical types, repetition types and codec (built directly on the runtime's
// public column API): anything the runtime caches per column name or per number of columns now holds foreign content.
func otherSchemaPrior() {
	otherType := func(t int) parquet.FieldFunc {
		return func(se *sch.SchemaElement) {
			x := sch.Type_INT32
			if t == 1 {
				x = sch.Type_DOUBLE
			}
			se.Type = &x
		}
	}
	for variant := 0; variant < 2; variant++ {
		var fields []parquet.Field
		var paths [][]string
		var types [][]int
		for i, c := range cols {
			if variant == 1 && i%2 == 1 {
				continue // a table with fewer columns
			}
			ts := make([]int, len(c.Path))
			for k := range ts {
				ts[k] = 1
			}
			fields = append(fields, parquet.Field{Name: c.Path[len(c.Path)-1], Path: c.Path, Types: ts, Type: otherType(c.Type), RepetitionType: parquet.RepetitionOptional})
			paths, types = append(paths, c.Path), append(types, ts)
		}
		if len(fields) == 0 {
			continue
		}
		protect(func() {
			meta := parquet.New(fields...)
			for i := range fields {
				f := parquet.NewOptionalField(paths[i], types[i], parquet.OptionalFieldGzip)
				f.Defs = []uint8{uint8(len(types[i])), 0, uint8(len(types[i]))}
				f.DoWrite(io.Discard, meta, []byte{1, 0, 0, 0, 2, 0, 0, 0}, 3, priorStats{})
			}
			meta.StartRowGroup(fields...)
			meta.Footer(io.Discard)
		})
	}
}

func dirtyPools(insts []instSpec) {
	otherSchemaPrior()
	// leave large, distinctively filled buffers in both pools
	for rep := 0; rep < 3; rep++ {
		for _, is := range insts {
			if is.Kind != "w" {
				continue
			}
			d := is
			d.Page = 1000
			d.Poff = is.Poff + 5 + rep
			var ops []op
			for k := 0; k < 40; k++ {
				for _, o := range is.Ops {
					if o.Op == "add" {
						ops = append(ops, o)
					}
				}
			}
			d.Ops = append(ops, op{Op: "write"}, op{Op: "close"})
			for _, codec := range []string{"uncompressed", "snappy", "gzip"} {
				d.Codec = codec
				runInst(d, nil, 0, nil)
			}
		}
	}
}

func runSched(c jobCase) {
	raw, _ := json.Marshal(c.Sched)
	var ss schedSpec
	if err := json.Unmarshal(raw, &ss); err != nil {
		emit(event{"ev": "HarnessError", "detail": "sched spec: " + err.Error()})
		return
	}
	n := len(ss.Insts)
	if !foreignFirst && os.Getenv("VERIF_SCHED_PHASE") != "baseline" {
		otherSchemaPrior()
		foreignFirst = true
	}
	// files for reader instances: written (solo) from the instance's own ops
	files := make([][]byte, n)
	for i, is := range ss.Insts {
		if is.Kind == "r" {
			w := is
			w.Kind = "w"
			files[i] = fileOf(runInst(w, nil, 0, nil))
		}
	}
	if os.Getenv("VERIF_SCHED_PHASE") == "baseline" {
		// reference process: every instance alone, nothing else has happened in this process but earlier solo runs
		base := make([][]string, n)
		for i, is := range ss.Insts {
			// two collections empty every sync.Pool: a solo run must not even see what an earlier solo run (for instance one
			// with a failing destination) left behind in this reference process
			runtime.GC()
			runtime.GC()
			base[i] = digestsOf(is, runInst(is, files[i], i+1, nil))
		}
		// ... and the same solo runs once more, in the opposite order: a solo run that comes out differently after other
		// instances have run in this process depends on more than its own history (tables, caches and buffers that outlive an
		// instance); the instances concerned are handed to the replay, which reports them
		differs := make([]bool, n)
		for i := n - 1; i >= 0 && ss.Repeat; i-- {
			runtime.GC()
			runtime.GC()
			differs[i] = !reflect.DeepEqual(digestsOf(ss.Insts[i], runInst(ss.Insts[i], files[i], i+1, nil)), base[i])
		}
		unstable := []int{}
		for i, d := range differs {
			if d {
				unstable = append(unstable, i+1)
			}
		}
		emit(event{"ev": "Baseline", "digests": base, "unstable": unstable})
		return
	}
	if !foreignFirst {
		// the very first thing this process does with the runtime is a table of another shape under the same column
		// names ("first one wins" caches), and it does it again before every dirty case ("last one wins" caches)
		otherSchemaPrior()
		foreignFirst = true
	}
	if ss.Prior == "dirty" {
		dirtyPools(ss.Insts)
	}
	solo := make([]instResult, n)
	for i, is := range ss.Insts {
		solo[i] = runInst(is, files[i], i+1, nil)
	}
	if ss.Stress > 0 {
		runStress(ss, files, solo)
		return
	}
	if runtime.GOMAXPROCS(0) != 1 {
		emit(event{"ev": "HarnessError", "detail": "schedule replay needs GOMAXPROCS(1)"})
		return
	}
	old := debug.SetGCPercent(-1) // a GC would empty sync.Pool and hide an early release
	defer debug.SetGCPercent(old)
	sharedOpts = nil
	for _, is := range ss.Insts {
		if is.SharedOpts && is.Kind == "w" {
			sharedOpts = append(make([]func(*ParquetWriter) error, 0, 8), MaxPageSize(is.Page), codecOpt[is.Codec])
			break
		}
	}
	g := &gate{waiting: map[int]chan struct{}{}, arrived: make(chan int, 64)}
	results := make([]instResult, n)
	done := make([]bool, n)
	for i := range ss.Insts {
		go func(i int) {
			results[i] = runInst(ss.Insts[i], files[i], i+1, g)
			g.arrived <- -(i + 1)
		}(i)
	}
	deadlock := false
	waitEvent := func() (int, bool) {
		select {
		case x := <-g.arrived:
			return x, true
		case <-time.After(180 * time.Second):
			deadlock = true
			return 0, false
		}
	}
	parked := make([]bool, n)
	// let every instance run to its first gate (or to completion)
	for k := 0; k < n; k++ {
		x, ok := waitEvent()
		if !ok {
			break
		}
		if x < 0 {
			done[-x-1] = true
		} else {
			parked[x-1] = true
		}
	}
	release := func(i int) bool { // releases instance i's pending call and waits for its next event
		if done[i] || !parked[i] || deadlock {
			return false
		}
		g.mu.Lock()
		ch := g.waiting[i+1]
		g.mu.Unlock()
		parked[i] = false
		close(ch)
		x, ok := waitEvent()
		if !ok {
			return false
		}
		if x < 0 {
			done[-x-1] = true
		} else {
			parked[x-1] = true
		}
		return true
	}
	switches, last, steps := 0, -1, 0
	for _, seg := range ss.Schedule {
		i := seg[0] - 1
		if i < 0 || i >= n {
			continue
		}
		for k := 0; k < seg[1]; k++ {
			if !release(i) {
				break
			}
			steps++
			if last != i {
				if last >= 0 {
					switches++
				}
				last = i
			}
		}
	}
	for i := 0; i < n; i++ {
		for !done[i] && !deadlock {
			if !release(i) {
				break
			}
		}
	}
	if deadlock {
		emit(event{"ev": "HarnessError", "detail": "schedule replay deadlocked"})
		return
	}
	// project: out[i][k] = [owner, epoch] -- owner i when the k-th sink call carries the instance's own bytes of that call
	out := make([][]event, n)
	diffs := []string{}
	for i := range ss.Insts {
		out[i] = []event{}
		got := digestsOf(ss.Insts[i], results[i])
		want := digestsOf(ss.Insts[i], solo[i])
		ref := "the solo run in this process"
		if i < len(ss.Baseline) && len(ss.Baseline[i]) > 0 {
			want, ref = ss.Baseline[i], "the solo run in a fresh process"
		}
		m := len(got)
		if len(want) > m {
			m = len(want)
		}
		for k := 0; k < m; k++ {
			owner := i + 1
			if k >= len(got) || k >= len(want) || got[k] != want[k] {
				owner = 0
				if len(diffs) < 5 {
					diffs = append(diffs, fmt.Sprintf("instance %d (%s): output element %d differs from %s", i+1, ss.Insts[i].Kind, k+1, ref))
				}
			}
			out[i] = append(out[i], event{"owner": owner, "epoch": k + 1})
		}
	}
	kinds := []string{}
	for _, is := range ss.Insts {
		kinds = append(kinds, is.Kind+":"+is.Codec)
	}
	unstable := ss.Unstable
	if unstable == nil {
		unstable = []int{}
	}
	emit(event{"ev": "Sched", "kinds": kinds, "schedule": ss.Schedule, "prior": ss.Prior, "out": out, "diffs": diffs,
		"switches": switches, "steps": steps, "pooltest": poolSelfTest(), "unstable": unstable})
}

func runStress(ss schedSpec, files [][]byte, solo []instResult) {
	var wg sync.WaitGroup
	var mu sync.Mutex
	bad := []string{}
	total := 0
	for rep := 0; rep < ss.Stress; rep++ {
		for i := range ss.Insts {
			wg.Add(1)
			go func(i int) {
				defer wg.Done()
				for k := 0; k < 20; k++ {
					r := runInst(ss.Insts[i], files[i], i+1, nil)
					same := true
					if ss.Insts[i].Kind == "r" {
						a, _ := json.Marshal(r.rows)
						b, _ := json.Marshal(solo[i].rows)
						same = bytes.Equal(a, b) && r.err == solo[i].err
					} else {
						same = bytes.Equal(fileOf(r), fileOf(solo[i])) && r.err == solo[i].err && r.pan == solo[i].pan
					}
					mu.Lock()
					total++
					if !same && len(bad) < 5 {
						bad = append(bad, fmt.Sprintf("instance %d run %d differs from its solo run", i+1, k))
					}
					mu.Unlock()
				}
			}(i)
		}
	}
	wg.Wait()
	emit(event{"ev": "Stress", "runs": total, "bad": bad, "nbad": len(bad)})
}
