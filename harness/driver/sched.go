package main

import (
	"bytes"
	"encoding/json"
	"fmt"
	"reflect"
	"runtime"
	"runtime/debug"
	"sync"
	"time"
)

// ---- independent instances under a prescribed schedule (C13).
// Every instance runs on its own goroutine; its sink (writers) or source
// (readers) is a blocking gate that releases one call at a time in the order
// the schedule prescribes.  With GOMAXPROCS(1) exactly one instance runs
// between two gate events, so the interleaving is the schedule's.

type instSpec struct {
	Kind  string `json:"kind"` // w | r
	Page  int    `json:"page"`
	Codec string `json:"codec"`
	Poff  int    `json:"poff"`
	Ops   []op   `json:"ops"`
}

type schedSpec struct {
	Insts    []instSpec `json:"insts"`
	Schedule [][]int    `json:"schedule"` // segments [instance (1-based), n calls]
	Prior    string     `json:"prior"`    // clean | dirty
	Stress   int        `json:"stress"`   // >0: free-running parallel stress with that many goroutines per instance
}

type instResult struct {
	calls [][]byte      // writer: bytes of every sink call
	rows  []interface{} // reader: rows delivered
	err   string
	pan   string
}

// runInst executes one instance.  g == nil: free running.
func runInst(is instSpec, file []byte, inst int, g *gate) (res instResult) {
	defer func() {
		if r := recover(); r != nil {
			res.pan = fmt.Sprintf("%v", r)
		}
	}()
	ctx := buildCtx{poff: is.Poff}
	if is.Kind == "r" {
		src := &source{data: file, inst: inst, g: g}
		r, err := NewParquetReader(src)
		if err != nil {
			res.err = err.Error()
			return
		}
		for r.Next() {
			rec := new(Rec)
			r.Scan(rec)
			res.rows = append(res.rows, ctx.abstract(reflect.ValueOf(rec).Elem()))
			if len(res.rows) > 100000 {
				break
			}
		}
		if e := r.Error(); e != nil {
			res.err = e.Error()
		}
		return
	}
	snk := &callSink{inst: inst, g: g}
	w, err := NewParquetWriter(snk, MaxPageSize(is.Page), codecOpt[is.Codec])
	if err != nil {
		res.err = err.Error()
		return
	}
	for _, o := range is.Ops {
		switch o.Op {
		case "add":
			var rec Rec
			ctx.fill(reflect.ValueOf(&rec).Elem(), o.Rec)
			w.Add(rec)
		case "write":
			if err := w.Write(); err != nil {
				res.err = err.Error()
				return
			}
		case "close":
			if err := w.Close(); err != nil {
				res.err = err.Error()
				return
			}
		}
	}
	res.calls = snk.calls
	return
}

// callSink records every Write call separately; the copy is taken only after
// the gate has released the call.
type callSink struct {
	calls [][]byte
	inst  int
	g     *gate
}

func (s *callSink) Write(p []byte) (int, error) {
	if s.g != nil {
		s.g.wait(s.inst)
	}
	s.calls = append(s.calls, append([]byte{}, p...))
	return len(p), nil
}

func fileOf(r instResult) []byte {
	var b []byte
	for _, c := range r.calls {
		b = append(b, c...)
	}
	return b
}

func poolSelfTest() bool {
	// under GOMAXPROCS(1) an object put by one goroutine is what the next Get on another goroutine returns
	var p sync.Pool
	type box struct{ x [64]byte }
	ok := true
	for i := 0; i < 200; i++ {
		b := &box{}
		done := make(chan *box)
		p.Put(b)
		go func() { done <- p.Get().(*box) }()
		if got := <-done; got != b {
			ok = false
		}
	}
	return ok
}

func dirtyPools(insts []instSpec) {
	// leave large, distinctively filled buffers in both pools
	for rep := 0; rep < 3; rep++ {
		for _, is := range insts {
			if is.Kind != "w" {
				continue
			}
			d := is
			d.Page = 1000
			d.Poff = is.Poff + 5 + rep
			var ops []op
			for k := 0; k < 40; k++ {
				for _, o := range is.Ops {
					if o.Op == "add" {
						ops = append(ops, o)
					}
				}
			}
			d.Ops = append(ops, op{Op: "write"}, op{Op: "close"})
			for _, codec := range []string{"uncompressed", "snappy", "gzip"} {
				d.Codec = codec
				runInst(d, nil, 0, nil)
			}
		}
	}
}

func runSched(c jobCase) {
	raw, _ := json.Marshal(c.Sched)
	var ss schedSpec
	if err := json.Unmarshal(raw, &ss); err != nil {
		emit(event{"ev": "HarnessError", "detail": "sched spec: " + err.Error()})
		return
	}
	n := len(ss.Insts)
	// files for reader instances: written (solo) from the instance's own ops
	files := make([][]byte, n)
	for i, is := range ss.Insts {
		if is.Kind == "r" {
			w := is
			w.Kind = "w"
			files[i] = fileOf(runInst(w, nil, 0, nil))
		}
	}
	if ss.Prior == "dirty" {
		dirtyPools(ss.Insts)
	}
	solo := make([]instResult, n)
	for i, is := range ss.Insts {
		solo[i] = runInst(is, files[i], i+1, nil)
	}
	if ss.Stress > 0 {
		runStress(ss, files, solo)
		return
	}
	if runtime.GOMAXPROCS(0) != 1 {
		emit(event{"ev": "HarnessError", "detail": "schedule replay needs GOMAXPROCS(1)"})
		return
	}
	old := debug.SetGCPercent(-1) // a GC would empty sync.Pool and hide an early release
	defer debug.SetGCPercent(old)
	g := &gate{waiting: map[int]chan struct{}{}, arrived: make(chan int, 64)}
	results := make([]instResult, n)
	done := make([]bool, n)
	for i := range ss.Insts {
		go func(i int) {
			results[i] = runInst(ss.Insts[i], files[i], i+1, g)
			g.arrived <- -(i + 1)
		}(i)
	}
	deadlock := false
	waitEvent := func() (int, bool) {
		select {
		case x := <-g.arrived:
			return x, true
		case <-time.After(180 * time.Second):
			deadlock = true
			return 0, false
		}
	}
	parked := make([]bool, n)
	// let every instance run to its first gate (or to completion)
	for k := 0; k < n; k++ {
		x, ok := waitEvent()
		if !ok {
			break
		}
		if x < 0 {
			done[-x-1] = true
		} else {
			parked[x-1] = true
		}
	}
	release := func(i int) bool { // releases instance i's pending call and waits for its next event
		if done[i] || !parked[i] || deadlock {
			return false
		}
		g.mu.Lock()
		ch := g.waiting[i+1]
		g.mu.Unlock()
		parked[i] = false
		close(ch)
		x, ok := waitEvent()
		if !ok {
			return false
		}
		if x < 0 {
			done[-x-1] = true
		} else {
			parked[x-1] = true
		}
		return true
	}
	switches, last, steps := 0, -1, 0
	for _, seg := range ss.Schedule {
		i := seg[0] - 1
		if i < 0 || i >= n {
			continue
		}
		for k := 0; k < seg[1]; k++ {
			if !release(i) {
				break
			}
			steps++
			if last != i {
				if last >= 0 {
					switches++
				}
				last = i
			}
		}
	}
	for i := 0; i < n; i++ {
		for !done[i] && !deadlock {
			if !release(i) {
				break
			}
		}
	}
	if deadlock {
		emit(event{"ev": "HarnessError", "detail": "schedule replay deadlocked"})
		return
	}
	// project: out[i][k] = [owner, epoch] -- owner i when the k-th sink call carries the instance's own bytes of that call
	out := make([][]event, n)
	diffs := []string{}
	for i := range ss.Insts {
		out[i] = []event{}
		if ss.Insts[i].Kind == "r" {
			a, _ := json.Marshal(results[i].rows)
			b, _ := json.Marshal(solo[i].rows)
			owner := i + 1
			if !bytes.Equal(a, b) || results[i].err != solo[i].err || results[i].pan != solo[i].pan {
				owner = 0
				diffs = append(diffs, fmt.Sprintf("reader %d: rows/err differ from solo run (err %q / %q)", i+1, results[i].err, solo[i].err))
			}
			out[i] = append(out[i], event{"owner": owner, "epoch": 1})
			continue
		}
		m := len(results[i].calls)
		if len(solo[i].calls) > m {
			m = len(solo[i].calls)
		}
		for k := 0; k < m; k++ {
			owner := i + 1
			if k >= len(results[i].calls) || k >= len(solo[i].calls) || !bytes.Equal(results[i].calls[k], solo[i].calls[k]) {
				owner = 0
				if len(diffs) < 5 {
					diffs = append(diffs, fmt.Sprintf("writer %d: sink call %d differs from the solo run", i+1, k+1))
				}
			}
			out[i] = append(out[i], event{"owner": owner, "epoch": k + 1})
		}
		if results[i].err != solo[i].err || results[i].pan != solo[i].pan {
			out[i] = append(out[i], event{"owner": 0, "epoch": m + 1})
			diffs = append(diffs, fmt.Sprintf("writer %d: error/panic differs from solo run (%q/%q vs %q/%q)", i+1, results[i].err, results[i].pan, solo[i].err, solo[i].pan))
		}
	}
	kinds := []string{}
	for _, is := range ss.Insts {
		kinds = append(kinds, is.Kind+":"+is.Codec)
	}
	emit(event{"ev": "Sched", "kinds": kinds, "schedule": ss.Schedule, "prior": ss.Prior, "out": out, "diffs": diffs,
		"switches": switches, "steps": steps, "pooltest": poolSelfTest()})
}

func runStress(ss schedSpec, files [][]byte, solo []instResult) {
	var wg sync.WaitGroup
	var mu sync.Mutex
	bad := []string{}
	total := 0
	for rep := 0; rep < ss.Stress; rep++ {
		for i := range ss.Insts {
			wg.Add(1)
			go func(i int) {
				defer wg.Done()
				for k := 0; k < 20; k++ {
					r := runInst(ss.Insts[i], files[i], i+1, nil)
					same := true
					if ss.Insts[i].Kind == "r" {
						a, _ := json.Marshal(r.rows)
						b, _ := json.Marshal(solo[i].rows)
						same = bytes.Equal(a, b) && r.err == solo[i].err
					} else {
						same = bytes.Equal(fileOf(r), fileOf(solo[i])) && r.err == solo[i].err && r.pan == solo[i].pan
					}
					mu.Lock()
					total++
					if !same && len(bad) < 5 {
						bad = append(bad, fmt.Sprintf("instance %d run %d differs from its solo run", i+1, k))
					}
					mu.Unlock()
				}
			}(i)
		}
	}
	wg.Wait()
	emit(event{"ev": "Stress", "runs": total, "bad": bad, "nbad": len(bad)})
}
