package main

import (
	"bytes"
	"encoding/json"
	"fmt"

	"verifharness/pq"
)

// ---- foreign files (C04, C18): the file is produced by the harness's own
// writer from a physical description; the generated reader must return the
// logical rows (C04) or refuse the file (C18).

type foreignCol struct {
	Codec    string  `json:"codec"`
	Literal  bool    `json:"literal"`
	Variant  int     `json:"variant"`
	Pages    [][]int `json:"pages"` // per row group: records per page
	Seg      string  `json:"seg"`   // greedy | rle1 | bp | bp8 | rand
	Pad      int     `json:"pad"`
	Stats    bool    `json:"stats"`
	Extras   bool    `json:"extras"`
	AbsentBP bool    `json:"absentbp"` // absent level streams labelled BIT_PACKED (parquet-mr)
}

type foreignSpec struct {
	Rows     []interface{} `json:"rows"`
	RGSplit  []int         `json:"rgsplit"`
	Cols     []foreignCol  `json:"cols"`
	Extras   bool          `json:"extras"`
	FileOff  string        `json:"fileoff"`
	NoStripe bool          `json:"nostripe"` // huge files: skip the (quadratic) TLC re-check of the harness's own striping
	// ReverseChunks: chunks stored in reverse schema order; only introspection is run on such a file (the reader does not support it)
	ReverseChunks bool   `json:"reversechunks"`
	Seed          uint64 `json:"seed"`
	Unsup         *struct {
		RG      int    `json:"rg"`
		Col     int    `json:"col"`
		Page    int    `json:"page"`
		Feature string `json:"feature"`
	} `json:"unsup"`
}

type entry struct{ r, d, tok int }

// stripeNode is the Go mirror of Dremel!StripeNode (used only to PRODUCE
// foreign files; TLC re-checks every produced column against Dremel!Stripe).
func stripeNode(chain []node, path []int, v interface{}, r, d, rd int, out *[]entry) {
	n := chain[0]
	base := func(b interface{}, r, d, rd int) {
		if len(chain) == 1 {
			*out = append(*out, entry{r, d, toInt(b)})
			return
		}
		kids := toList(b)
		stripeNode(chain[1:], path[1:], kids[path[1]], r, d, rd, out)
	}
	switch n.Rep {
	case "req":
		base(v, r, d, rd)
	case "opt":
		l := toList(v)
		if len(l) == 0 {
			*out = append(*out, entry{r, d, -1})
		} else {
			base(l[0], r, d+1, rd)
		}
	default:
		l := toList(v)
		if len(l) == 0 {
			*out = append(*out, entry{r, d, -1})
			return
		}
		for i, e := range l {
			rr := r
			if i > 0 {
				rr = rd + 1
			}
			base(e, rr, d+1, rd+1)
		}
	}
}

type leafPath struct {
	idx   []int
	chain []node
}

func leafPaths(kids []node, idx []int, chain []node, out *[]leafPath) {
	for i, k := range kids {
		p := append(append([]int{}, idx...), i)
		c := append(append([]node{}, chain...), k)
		if k.Typ == "group" {
			leafPaths(k.Kids, p, c, out)
		} else {
			*out = append(*out, leafPath{p, c})
		}
	}
}

func schemaElems(kids []node, out *[]pq.SchemaElem) {
	repn := map[string]int{"req": 0, "opt": 1, "rep": 2}
	for _, k := range kids {
		if k.Typ == "group" {
			*out = append(*out, pq.SchemaElem{Name: k.Name, Type: -1, CType: -1, Rep: repn[k.Rep], NumChildren: len(k.Kids)})
			schemaElems(k.Kids, out)
			continue
		}
		var c column
		for _, cc := range cols {
			if cc.Path[len(cc.Path)-1] == k.Name && cc.GoType == k.Typ {
				c = cc
			}
		}
		*out = append(*out, pq.SchemaElem{Name: k.Name, Type: c.Type, CType: c.CType, Rep: repn[k.Rep], NumChildren: -1})
	}
}

func segsFor(policy string, seed uint64, levels []uint8) []pq.Seg {
	switch policy {
	case "rle1":
		s := make([]pq.Seg, len(levels))
		for i := range s {
			s[i] = pq.Seg{RLE: true, N: 1}
		}
		return s
	case "bp":
		if len(levels) == 0 {
			return []pq.Seg{}
		}
		return []pq.Seg{{RLE: false, N: len(levels)}}
	case "bp8":
		var s []pq.Seg
		for i := 0; i < len(levels); i += 8 {
			n := 8
			if i+n > len(levels) {
				n = len(levels) - i
			}
			s = append(s, pq.Seg{RLE: false, N: n})
		}
		if s == nil {
			s = []pq.Seg{}
		}
		return s
	case "rand":
		s := pq.RandSegs(seed, levels)
		if s == nil {
			s = []pq.Seg{}
		}
		return s
	}
	return nil
}

func valOf(typ string, tok, poff int) pq.Val {
	if typ == "string" && tok == 999 {
		return pq.Val{Bytes: []byte(bigString)}
	}
	if typ == "string" && tok == 998 {
		return pq.Val{Bytes: []byte(noisyString)}
	}
	if typ == "string" && tok == 997 {
		return pq.Val{Bytes: []byte(embeddedFile)}
	}
	if tl, ok := tailLike[tok]; ok && typ == "string" {
		return pq.Val{Bytes: []byte(tl)}
	}
	b, s := bitsOf(poolVal(typ, tok, poff))
	return pq.Val{Bits: b, Bytes: s}
}

func runForeign(c jobCase) {
	raw, _ := json.Marshal(c.Foreign)
	var fs foreignSpec
	if err := json.Unmarshal(raw, &fs); err != nil {
		emit(event{"ev": "HarnessError", "detail": "foreign spec: " + err.Error()})
		return
	}
	var lps []leafPath
	leafPaths(schemaRoot, nil, nil, &lps)
	// canonical rows (tokens reduced modulo the pool sizes, as the reader will report them)
	ctx := buildCtx{poff: c.Poff}
	spec := pq.FileSpec{Extras: fs.Extras, FileOffset: fs.FileOff, LongForm: fs.Seed%3 == 0, ReverseChunks: fs.ReverseChunks}
	spec.Schema = []pq.SchemaElem{{Name: "schema", Type: -1, CType: -1, Rep: -1, NumChildren: len(schemaRoot)}}
	schemaElems(schemaRoot, &spec.Schema)
	colEntries := make([][][]int, len(cols))
	rowStart := 0
	safeRows := -1
	for gi, nrows := range fs.RGSplit {
		rows := fs.Rows[rowStart : rowStart+nrows]
		if fs.Unsup != nil && fs.Unsup.RG == gi {
			safeRows = rowStart
		}
		rowStart += nrows
		rg := pq.RGSpec{NumRows: int64(nrows)}
		for ci, col := range cols {
			fc := fs.Cols[ci]
			ch := pq.ChunkSpec{Col: col.Column, Codec: codecNum[fc.Codec], Literal: fc.Literal, Variant: fc.Variant}
			counts := []int{nrows}
			if gi < len(fc.Pages) && len(fc.Pages[gi]) > 0 {
				counts = fc.Pages[gi]
			}
			ri := 0
			for pi, cnt := range counts {
				var es []entry
				for _, row := range rows[ri : ri+cnt] {
					kids := toList(row)
					stripeNode(lps[ci].chain, lps[ci].idx, kids[lps[ci].idx[0]], 0, 0, 0, &es)
				}
				ri += cnt
				p := pq.PageSpec{Pad: uint8(fc.Pad), Stats: fc.Stats, Extras: fc.Extras && pi%2 == 0, AbsentBP: fc.AbsentBP} // optional header fields (crc ...) on every other page only
				for _, e := range es {
					colEntries[ci] = append(colEntries[ci], []int{e.r, e.d, e.tok})
					p.Reps = append(p.Reps, uint8(e.r))
					p.Defs = append(p.Defs, uint8(e.d))
					if e.d == col.MaxDef {
						p.Values = append(p.Values, valOf(col.GoType, e.tok, c.Poff))
					}
				}
				seed := fs.Seed + uint64(gi*1000+ci*100+pi)
				p.RepSegs = segsFor(fc.Seg, seed, p.Reps)
				p.DefSegs = segsFor(fc.Seg, seed+7, p.Defs)
				if fs.Unsup != nil && fs.Unsup.RG == gi && fs.Unsup.Col == ci {
					f := fs.Unsup.Feature
					switch {
					case f == "dict" || f == "dict-rle" || f == "dict-plain" || len(f) > 6 && f[:6] == "codec-":
						ch.Feature = f
					case fs.Unsup.Page < 0:
						// the feature sits on an extra, value-less page appended after the last page of the chunk (below)
					case fs.Unsup.Page == pi || fs.Unsup.Page >= len(counts) && pi == len(counts)-1:
						p.Feature = f
					}
				}
				ch.Pages = append(ch.Pages, p)
			}
			if fs.Unsup != nil && fs.Unsup.RG == gi && fs.Unsup.Col == ci && fs.Unsup.Page < 0 {
				// a trailing page without values that uses the unsupported feature: every value of the chunk has been
				// delivered before the reader gets there
				tp := pq.PageSpec{Feature: fs.Unsup.Feature, Reps: []uint8{}, Defs: []uint8{}}
				tp.RepSegs, tp.DefSegs = []pq.Seg{}, []pq.Seg{}
				ch.Pages = append(ch.Pages, tp)
			}
			rg.Chunks = append(rg.Chunks, ch)
		}
		spec.RowGroups = append(spec.RowGroups, rg)
	}
	file, err := pq.WriteFile(spec)
	if err != nil {
		emit(event{"ev": "HarnessError", "detail": "foreign writer: " + err.Error()})
		return
	}
	// the rows as the reader will report them: built into the Go type and mapped back
	canon := make([]interface{}, len(fs.Rows))
	for i, r := range fs.Rows {
		var rec Rec
		ctx.fill(reflectElem(&rec), r)
		canon[i] = ctx.abstract(reflectElem(&rec))
	}
	self := ""
	if fs.Unsup == nil {
		self = selfCheck(file, spec)
	}
	// tokens in the entries are canonicalised the same way (modulo pool size)
	for ci := range colEntries {
		for _, e := range colEntries[ci] {
			if e[2] >= 0 {
				v := valOf(cols[ci].GoType, e[2], c.Poff)
				e[2] = tokOfBits(cols[ci].GoType, v.Bits, v.Bytes, c.Poff)
			}
		}
		if colEntries[ci] == nil {
			colEntries[ci] = [][]int{}
		}
	}
	feature := ""
	if fs.Unsup != nil {
		feature = fs.Unsup.Feature
	}
	if fs.NoStripe {
		for ci := range colEntries {
			colEntries[ci] = [][]int{}
		}
	}
	emit(event{"ev": "Foreign", "rows": canon, "entries": colEntries, "selfcheck": self, "len": len(file), "feature": feature, "saferows": safeRows,
		"nostripe": fs.NoStripe})
	if c.KeepFile != "" {
		writeFile(c.KeepFile, file)
	}
	if fs.ReverseChunks {
		if c.Intro {
			runIntro(file, true)
		}
		return
	}
	limit := len(fs.Rows)*2 + 50
	res := runReader(file, &source{data: file}, c.Poff, limit, false)
	mode := "foreign"
	if fs.Unsup != nil {
		mode = "unsup"
	}
	emit(res.event(mode, event{"saferows": safeRows, "feature": feature}))
	if c.Intro && fs.Unsup == nil {
		runIntro(file, true)
	}
	for _, rs := range c.Reads {
		switch rs.Mode {
		case "chunk":
			res := runReader(file, &source{data: file, chunk: rs.Chunk, eofData: rs.EOFData}, c.Poff, limit, false)
			emit(res.event(mode, event{"saferows": safeRows, "feature": feature, "chunk": rs.Chunk}))
		case "rand":
			l := &lcg{s: uint64(rs.Seed)}
			res := runReader(file, &source{data: file, randShort: func() int { return 1 + int(l.next()%9) }}, c.Poff, limit, false)
			emit(res.event(mode, event{"saferows": safeRows, "feature": feature, "chunk": -1}))
		}
	}
}

// selfCheck parses the foreign file back with the independent parser:
// parse(write(f)) = f, so that a harness bug is not blamed on the library.
func selfCheck(file []byte, spec pq.FileSpec) string {
	f, err := pq.ParseFooter(file)
	if err != nil {
		return "footer: " + err.Error()
	}
	pcols, err := pq.Columns(f.Schema)
	if err != nil {
		return "schema: " + err.Error()
	}
	if len(f.RowGroups) != len(spec.RowGroups) {
		return "row group count"
	}
	for gi, rg := range f.RowGroups {
		if len(rg.Columns) != len(pcols) {
			return "chunk count"
		}
		for ci, ch := range rg.Columns {
			pos := int(ch.DataPageOffset)
			for pi, ps := range spec.RowGroups[gi].Chunks[ci].Pages {
				p, err := pq.DecodePage(file[:f.FooterOff], pos, pcols[ci], ch.Codec)
				if err != nil {
					return fmt.Sprintf("rg %d col %d page %d: %v", gi, ci, pi, err)
				}
				if len(p.Problems) > 0 {
					return fmt.Sprintf("rg %d col %d page %d: %v", gi, ci, pi, p.Problems)
				}
				if pcols[ci].MaxRep > 0 && !bytes.Equal(p.Reps, ps.Reps) || pcols[ci].MaxDef > 0 && !bytes.Equal(p.Defs, ps.Defs) || len(p.Values) != len(ps.Values) {
					return fmt.Sprintf("rg %d col %d page %d: levels differ", gi, ci, pi)
				}
				for i := range p.Values {
					if p.Values[i].Bits != ps.Values[i].Bits || !bytes.Equal(p.Values[i].Bytes, ps.Values[i].Bytes) {
						return fmt.Sprintf("rg %d col %d page %d: value %d differs", gi, ci, pi, i)
					}
				}
				pos = p.End()
			}
		}
	}
	return ""
}
