module verifharness

go 1.20

require (
	github.com/golang/snappy v0.0.2
)
