// coldrv drives the level encoder/decoder of parsyl/parquet through its public
// column API (NewOptionalField, DoWrite, DoRead) with chosen level sequences
// and foreign-encoded level streams (C07, C17).  Events go to an ndjson file
// and are judged by TLC (TraceBits.tla); bulk sweeps are judged by the Go
// mirror of the specification operators (pq.DecodeStream / pq.SpecPack), which
// is itself cross-checked against TLC-evaluated vectors on every run.
package main

import (
	"bufio"
	"bytes"
	"encoding/json"
	"fmt"
	"io"
	"os"
	"runtime"
	"runtime/debug"
	"time"

	"github.com/parsyl/parquet"
	sch "github.com/parsyl/parquet/schema"
	"verifharness/pq"
)

type job struct {
	Ops []op `json:"ops"`
}

type op struct {
	Op      string   `json:"op"`
	W       int      `json:"w"`
	Kind    string   `json:"kind"` // def | rep
	Levels  []int    `json:"levels"`
	Segs    []pq.Seg `json:"segs"`
	Pad     int      `json:"pad"`
	MaxLen  int      `json:"maxlen"`
	MinLen  int      `json:"minlen"`
	Count   int      `json:"count"`
	Seed    int64    `json:"seed"`
	Sample  int      `json:"sample"` // emit every Sample-th case as an event for TLC
	Vectors []vector `json:"vectors"`
	RunLens []int    `json:"runlens"`
	NRuns   int      `json:"nruns"`
	Big     bool     `json:"big"`
}

type vector struct {
	W     int   `json:"w"`
	Vals  []int `json:"vals"`
	Bytes []int `json:"bytes"`
}

type event map[string]interface{}

var out *bufio.Writer

func emit(e event) {
	b, _ := json.Marshal(e)
	out.Write(b)
	out.WriteByte('\n')
}

// runaway watchdog: an encoder or decoder that loops or allocates without bound on some input is a verdict about the
// library.  The failing input is reported as a one-case sweep with one bad entry, then the process exits (the abandoned
// goroutine cannot be stopped).
func guardedCall(what string, w int, kind string, levels []uint8, stream []byte, f func()) {
	done := make(chan struct{}, 1)
	go func() { f(); done <- struct{}{} }()
	t := time.NewTicker(25 * time.Millisecond)
	defer t.Stop()
	start := time.Now()
	var ms runtime.MemStats
	n := 0
	for {
		select {
		case <-done:
			return
		case <-t.C:
			n++
			prob := ""
			if time.Since(start) > 120*time.Second {
				prob = "runaway: the call did not return within 120s"
			} else if n%4 == 0 {
				runtime.ReadMemStats(&ms)
				if ms.HeapAlloc > 6<<30 {
					prob = fmt.Sprintf("runaway: heap grew to %d MiB during the call", ms.HeapAlloc>>20)
				}
			}
			if prob != "" {
				if len(levels) > 200000 {
					levels = levels[:200000]
				}
				if len(stream) > 200000 {
					stream = stream[:200000]
				}
				emit(event{"ev": "RunsAll", "op": what, "w": w, "kind": kind, "count": 1, "nbad": 1,
					"bad": []event{{"levels": ints(levels), "stream": bints(stream), "problem": prob}}})
				out.Flush()
				os.Exit(0)
			}
		}
	}
}

func encode(w int, kind string, levels []uint8) (stream []byte, problem string) {
	guardedCall("enc", w, kind, levels, nil, func() { stream, problem = encodeInner(w, kind, levels) })
	return
}

func decode(w int, kind string, n int, stream []byte) (levels []uint8, restOK bool, problem string) {
	guardedCall("dec", w, kind, nil, stream, func() { levels, restOK, problem = decodeInner(w, kind, n, stream) })
	return
}

type noStats struct{}

func (noStats) NullCount() *int64     { return nil }
func (noStats) DistinctCount() *int64 { return nil }
func (noStats) Min() []byte           { return nil }
func (noStats) Max() []byte           { return nil }

func int32Type(se *sch.SchemaElement) {
	t := sch.Type_INT32
	se.Type = &t
}

func typesFor(w int, kind string) []int {
	n := 1<<uint(w) - 1
	t := make([]int, n)
	for i := range t {
		if kind == "rep" {
			t[i] = 2
		} else {
			t[i] = 1
		}
	}
	return t
}

func u8(x []int) []uint8 {
	o := make([]uint8, len(x))
	for i, v := range x {
		o[i] = uint8(v)
	}
	return o
}
func ints(x []uint8) []int {
	o := make([]int, len(x))
	for i, v := range x {
		o[i] = int(v)
	}
	return o
}
func bints(x []byte) []int { return ints(x) }

var sentinel = []byte{0xA5, 0x5A, 0xC3, 0x3C, 0x01, 0x02, 0x03, 0x04}

// encode runs the library's encoder on levels through DoWrite and returns the
// level stream cut out of the page, or an error description.
func encodeInner(w int, kind string, levels []uint8) (stream []byte, problem string) {
	defer func() {
		if r := recover(); r != nil {
			problem = fmt.Sprintf("panic: %v %s", r, debug.Stack())
			if len(problem) > 600 {
				problem = problem[:600]
			}
		}
	}()
	types := typesFor(w, kind)
	path := []string{"c"}
	f := parquet.NewOptionalField(path, types, parquet.OptionalFieldUncompressed)
	meta := parquet.New(parquet.Field{Name: "c", Path: path, Types: types, Type: int32Type, RepetitionType: parquet.RepetitionOptional})
	if kind == "rep" {
		f.Reps = levels
		f.Defs = make([]uint8, len(levels))
	} else {
		f.Defs = levels
	}
	var buf bytes.Buffer
	if err := f.DoWrite(&buf, meta, sentinel, len(levels), noStats{}); err != nil {
		return nil, "DoWrite: " + err.Error()
	}
	file := buf.Bytes()
	h, err := pq.ReadPageHdr(file, 0)
	if err != nil {
		return nil, "page header: " + err.Error()
	}
	body := file[h.HdrLen:]
	if h.Comp != len(body) || h.Uncomp != len(body) {
		return nil, fmt.Sprintf("page sizes %d/%d but body has %d bytes", h.Comp, h.Uncomp, len(body))
	}
	if h.NumValues != len(levels) {
		return nil, fmt.Sprintf("num_values %d for %d levels", h.NumValues, len(levels))
	}
	// first stream is the one under test (reps come first); then (rep kind) the def stream; then the sentinel
	if len(body) < 4 {
		return nil, "body too short"
	}
	n := int(uint32(body[0]) | uint32(body[1])<<8 | uint32(body[2])<<16 | uint32(body[3])<<24)
	if n < 0 || 4+n > len(body) {
		return body, ""
	}
	stream = body[:4+n]
	rest := body[4+n:]
	if kind == "rep" {
		_, _, c, err := pq.DecodeStream(rest, w)
		if err != nil {
			return stream, "def stream after rep stream: " + err.Error()
		}
		rest = rest[c:]
	}
	if !bytes.Equal(rest, sentinel) {
		return stream, fmt.Sprintf("value section after the levels is %x, want %x", rest, sentinel)
	}
	return stream, ""
}

// judgeEnc is the Go mirror of Hybrid!EncodesTo.
func judgeEnc(stream []byte, w int, levels []uint8) string {
	vals, _, c, err := pq.DecodeStream(stream, w)
	if err != nil {
		return err.Error()
	}
	if c != len(stream) {
		return fmt.Sprintf("stream has %d bytes, prefix says %d", len(stream), c)
	}
	if len(vals) < len(levels) || len(vals)-len(levels) >= 8 {
		return fmt.Sprintf("decodes to %d values for %d levels", len(vals), len(levels))
	}
	for i, v := range levels {
		if vals[i] != v {
			return fmt.Sprintf("value %d is %d, want %d", i, vals[i], v)
		}
	}
	return ""
}

func pageFor(w int, kind string, n int, stream []byte) []byte {
	var body []byte
	if kind == "rep" {
		body = append(body, stream...)
		zeros := make([]uint8, n)
		d, _ := pq.EncodeSegs(zeros, w, pq.GreedySegs(zeros), 0)
		body = append(body, d...)
	} else {
		body = append(body, stream...)
	}
	body = append(body, sentinel...)
	dp := pq.NewSt().SetI32(1, int64(n)).SetI32(2, 0).SetI32(3, 3).SetI32(4, 3)
	ph := pq.NewSt().SetI32(1, 0).SetI32(2, int64(len(body))).SetI32(3, int64(len(body))).SetSt(5, dp)
	e := &pq.TEnc{}
	e.Struct(ph)
	return append(e.B, body...)
}

// decode feeds a level stream to the library's decoder through DoRead.
func decodeInner(w int, kind string, n int, stream []byte) (levels []uint8, restOK bool, problem string) {
	defer func() {
		if r := recover(); r != nil {
			problem = fmt.Sprintf("panic: %v", r)
		}
	}()
	types := typesFor(w, kind)
	f := parquet.NewOptionalField([]string{"c"}, types, parquet.OptionalFieldUncompressed)
	page := pageFor(w, kind, n, stream)
	rr, _, err := f.DoRead(bytes.NewReader(page), parquet.Page{N: n, Size: len(page), Offset: 0, Codec: sch.CompressionCodec_UNCOMPRESSED})
	if err != nil {
		return nil, false, "DoRead: " + err.Error()
	}
	rest, _ := io.ReadAll(rr)
	if kind == "rep" {
		levels = f.Reps
	} else {
		levels = f.Defs
	}
	return levels, bytes.Equal(rest, sentinel), ""
}

type lcg struct{ s uint64 }

func (l *lcg) next(n int) int {
	l.s = l.s*6364136223846793005 + 1442695040888963407
	return int((l.s >> 33) % uint64(n))
}

// randSegs draws a random legal segmentation of levels.
func randSegs(l *lcg, levels []uint8) []pq.Seg {
	var segs []pq.Seg
	pos := 0
	for pos < len(levels) {
		rem := len(levels) - pos
		c := 1
		for pos+c < len(levels) && levels[pos+c] == levels[pos] {
			c++
		}
		if l.next(23) == 0 {
			segs = append(segs, pq.Seg{RLE: true, N: 0}) // an empty RLE run
		}
		if l.next(2) == 0 {
			n := 1 + l.next(c)
			if l.next(3) == 0 {
				n = c
			}
			segs = append(segs, pq.Seg{RLE: true, N: n, HdrPad: map[bool]int{true: 1 + l.next(4), false: 0}[l.next(17) == 0 && n < 64]})
			pos += n
		} else {
			g := 1 + l.next(4)
			switch l.next(12) {
			case 0, 1:
				g = 60 + l.next(150)
			case 2:
				g = 200 + l.next(500) // >= 256 groups: the payload of a width-1 run exceeds 255 bytes
			}
			n := 8 * g
			if n >= rem {
				n = rem
			}
			segs = append(segs, pq.Seg{RLE: false, N: n})
			pos += n
		}
	}
	return segs
}

func levelsFromRuns(l *lcg, w int, nruns int, lens []int) []uint8 {
	var out []uint8
	prev := -1
	for i := 0; i < nruns; i++ {
		n := lens[l.next(len(lens))]
		if l.next(3) == 0 { // an alternating stretch: stays bit-packed
			v := l.next(1 << uint(w))
			for k := 0; k < n; k++ {
				out = append(out, uint8((v+k)%(1<<uint(w))))
			}
			prev = int(out[len(out)-1])
			continue
		}
		v := l.next(1 << uint(w))
		if v == prev {
			v = (v + 1) % (1 << uint(w))
		}
		for k := 0; k < n; k++ {
			out = append(out, uint8(v))
		}
		prev = v
	}
	return out
}

func run(o op) {
	switch o.Op {
	case "enc":
		lv := u8(o.Levels)
		s, prob := encode(o.W, o.Kind, lv)
		emit(event{"ev": "Enc", "w": o.W, "kind": o.Kind, "levels": o.Levels, "stream": bints(s), "problem": prob})
	case "dec":
		lv := u8(o.Levels)
		s, err := pq.EncodeSegs(lv, o.W, o.Segs, uint8(o.Pad))
		if err != nil {
			emit(event{"ev": "HarnessError", "detail": err.Error()})
			return
		}
		got, restOK, prob := decode(o.W, o.Kind, len(lv), s)
		if o.Big {
			// too long for TLC to decode: judged here against the (TLC-cross-checked) reference decoder, reported as a one-case sweep
			if vals, _, c, err := pq.DecodeStream(s, o.W); err != nil || c != len(s) || len(vals) < len(lv) || !bytes.Equal(vals[:len(lv)], lv) {
				emit(event{"ev": "HarnessError", "detail": fmt.Sprintf("foreign encoder / reference decoder disagree: %v", err)})
				return
			}
			if prob == "" && (!bytes.Equal(got, lv) || !restOK) {
				prob = fmt.Sprintf("decoded %d levels (want %d), equal=%v, value section intact=%v", len(got), len(lv), bytes.Equal(got, lv), restOK)
			}
			bad := []event{}
			if prob != "" {
				bad = append(bad, event{"levels": o.Levels, "stream": bints(s), "problem": prob, "segs": o.Segs})
			}
			emit(event{"ev": "RunsAll", "op": "dec", "w": o.W, "kind": o.Kind, "count": 1, "bad": bad, "nbad": len(bad)})
			return
		}
		emit(event{"ev": "Dec", "w": o.W, "kind": o.Kind, "levels": o.Levels, "stream": bints(s), "out": ints(got), "restok": restOK, "problem": prob,
			"nsegs": len(o.Segs)})
	case "encall":
		// every level sequence of length MinLen..MaxLen over 0..2^w-1
		total, bad, nontrivial := 0, []event{}, 0
		base := 1 << uint(o.W)
		for n := o.MinLen; n <= o.MaxLen; n++ {
			cnt := 1
			for i := 0; i < n; i++ {
				cnt *= base
			}
			lv := make([]uint8, n)
			for x := 0; x < cnt; x++ {
				y := x
				for i := 0; i < n; i++ {
					lv[i] = uint8(y % base)
					y /= base
				}
				s, prob := encode(o.W, o.Kind, lv)
				if prob == "" {
					prob = judgeEnc(s, o.W, lv)
				}
				total++
				if n >= 8 {
					nontrivial++
				}
				if prob != "" && len(bad) < 5 {
					bad = append(bad, event{"levels": ints(lv), "stream": bints(s), "problem": prob})
				}
				if o.Sample > 0 && total%o.Sample == 0 {
					emit(event{"ev": "Enc", "w": o.W, "kind": o.Kind, "levels": ints(lv), "stream": bints(s), "problem": ""})
				}
			}
		}
		emit(event{"ev": "EncAll", "w": o.W, "kind": o.Kind, "minlen": o.MinLen, "maxlen": o.MaxLen, "count": total, "nontrivial": nontrivial, "bad": bad, "nbad": len(bad)})
	case "encruns", "decruns":
		l := &lcg{s: uint64(o.Seed)}
		total, bad := 0, []event{}
		for i := 0; i < o.Count; i++ {
			lv := levelsFromRuns(l, o.W, 1+l.next(o.NRuns), o.RunLens)
			if o.Op == "encruns" {
				s, prob := encode(o.W, o.Kind, lv)
				if prob == "" {
					prob = judgeEnc(s, o.W, lv)
				}
				total++
				if prob != "" && len(bad) < 5 {
					bad = append(bad, event{"levels": ints(lv), "stream": bints(s), "problem": prob})
				}
				if o.Sample > 0 && i%o.Sample == 0 && len(lv) <= 600 {
					emit(event{"ev": "Enc", "w": o.W, "kind": o.Kind, "levels": ints(lv), "stream": bints(s), "problem": ""})
				}
			} else {
				segs := randSegs(l, lv)
				pad := uint8(l.next(1 << uint(o.W)))
				s, err := pq.EncodeSegs(lv, o.W, segs, pad)
				if err != nil {
					emit(event{"ev": "HarnessError", "detail": err.Error()})
					return
				}
				// the foreign stream itself must satisfy the reference decoder
				if vals, _, c, err := pq.DecodeStream(s, o.W); err != nil || c != len(s) || len(vals) < len(lv) || !bytes.Equal(vals[:len(lv)], lv) {
					emit(event{"ev": "HarnessError", "detail": fmt.Sprintf("foreign encoder / reference decoder disagree: %v", err)})
					return
				}
				got, restOK, prob := decode(o.W, o.Kind, len(lv), s)
				total++
				if prob == "" && (!bytes.Equal(got, lv) || !restOK) {
					prob = fmt.Sprintf("decoded %d levels (want %d), equal=%v, value section intact=%v", len(got), len(lv), bytes.Equal(got, lv), restOK)
				}
				if prob != "" && len(bad) < 5 {
					bad = append(bad, event{"levels": ints(lv), "stream": bints(s), "problem": prob, "segs": segs})
				}
				if o.Sample > 0 && i%o.Sample == 0 && len(lv) <= 600 {
					emit(event{"ev": "Dec", "w": o.W, "kind": o.Kind, "levels": ints(lv), "stream": bints(s), "out": ints(got), "restok": restOK, "problem": "", "nsegs": len(segs)})
				}
			}
		}
		emit(event{"ev": "RunsAll", "op": o.Op, "w": o.W, "kind": o.Kind, "count": total, "bad": bad, "nbad": len(bad)})
	case "encgrid":
		// systematic grid: a lead of non-repeating values (0..MaxLen long, two patterns), then a run of one value
		// (every length 1..NRuns and the boundary lengths), then a tail - the alignments an encoder's run/group switch sees
		total, bad, emitted := 0, []event{}, 0
		nv := 1 << uint(o.W)
		lens := []int{}
		for r := 1; r <= o.NRuns; r++ {
			lens = append(lens, r)
		}
		lens = append(lens, o.RunLens...)
		for lead := 0; lead <= o.MaxLen; lead++ {
			for pat := 0; pat < 2; pat++ {
				for _, r := range lens {
					for v := 0; v < nv && v < 4; v++ {
						for tail := 0; tail < 5; tail++ {
							lv := make([]uint8, 0, lead+r+9)
							for i := 0; i < lead; i++ {
								x := (i + pat) % nv
								if pat == 1 && i%3 == 2 {
									x = (x + 1) % nv
								}
								lv = append(lv, uint8(x))
							}
							for i := 0; i < r; i++ {
								lv = append(lv, uint8(v))
							}
							o2 := uint8((v + 1) % nv)
							switch tail {
							case 1:
								lv = append(lv, o2)
							case 2:
								lv = append(lv, o2, uint8(v), o2)
							case 3:
								for i := 0; i < 8; i++ {
									lv = append(lv, o2)
								}
							case 4:
								for i := 0; i < 9; i++ {
									lv = append(lv, uint8((v+i)%nv))
								}
							}
							st, prob := encode(o.W, o.Kind, lv)
							if prob == "" {
								prob = judgeEnc(st, o.W, lv)
							}
							total++
							if prob != "" && len(bad) < 5 {
								bad = append(bad, event{"levels": ints(lv), "stream": bints(st), "problem": prob})
							}
							if o.Sample > 0 && total%o.Sample == 0 && len(lv) <= 600 {
								emitted++
								emit(event{"ev": "Enc", "w": o.W, "kind": o.Kind, "levels": ints(lv), "stream": bints(st), "problem": ""})
							}
						}
					}
				}
			}
		}
		emit(event{"ev": "RunsAll", "op": o.Op, "w": o.W, "kind": o.Kind, "count": total, "bad": bad, "nbad": len(bad)})
	case "mirror":
		nbad := 0
		for _, v := range o.Vectors {
			p := pq.SpecPack(u8(v.Vals), v.W)
			u := pq.SpecUnpack(u8(v.Bytes), v.W)
			if !bytes.Equal(p, u8(v.Bytes)) || !bytes.Equal(u, u8(v.Vals)) {
				nbad++
			}
		}
		emit(event{"ev": "Mirror", "n": len(o.Vectors), "nbad": nbad})
	}
}

func main() {
	raw, err := os.ReadFile(os.Args[1])
	if err != nil {
		fmt.Fprintln(os.Stderr, err)
		os.Exit(2)
	}
	var j job
	if err := json.Unmarshal(raw, &j); err != nil {
		fmt.Fprintln(os.Stderr, err)
		os.Exit(2)
	}
	f, err := os.Create(os.Args[2])
	if err != nil {
		fmt.Fprintln(os.Stderr, err)
		os.Exit(2)
	}
	out = bufio.NewWriterSize(f, 1<<20)
	for _, o := range j.Ops {
		run(o)
	}
	out.Flush()
	f.Close()
}
